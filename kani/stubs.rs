// Shared Kani stubs (DESIGN 2.3). `include!`d by both harness crates.
// Every stub is part of the claim of each harness that names it; the driver lists them in evidence.

/// S3: `std::fmt::format` -> empty string. Message texts are not the subject of any property.
pub fn fmt_stub(_a: std::fmt::Arguments<'_>) -> String {
    String::new()
}

/// S2: `RandomState::new` -> fixed keys (the real one opens /dev/urandom).
pub fn fixed_keys() -> std::hash::RandomState {
    unsafe { std::mem::transmute::<[u64; 2], std::hash::RandomState>([1, 2]) }
}

/// S4: `core::str::from_utf8` (called by `String::from_utf8`) -> ASCII model: all bytes < 0x80 => Ok,
/// otherwise a real `Utf8Error` (obtained from the un-stubbed `from_utf8_mut` on a concrete invalid byte).
/// Non-ASCII names are therefore treated as rejected (acceptance of multi-byte UTF-8 is outside the claim).
pub fn str_from_utf8_stub(v: &[u8]) -> Result<&str, std::str::Utf8Error> {
    let mut ascii = true;
    let mut i = 0;
    while i < v.len() {
        if v[i] >= 0x80 {
            ascii = false;
        }
        i += 1;
    }
    if ascii {
        Ok(unsafe { std::str::from_utf8_unchecked(v) })
    } else {
        let mut bad = [0xFFu8];
        match std::str::from_utf8_mut(&mut bad) {
            Err(e) => Err(e),
            Ok(_) => unreachable!(),
        }
    }
}

/// S3b: `<MetadataTLVFieldCode as Display>::fmt` -> writes nothing. The decoders build their "unexpected TLV" error
/// texts with `.to_string()`, which drags the whole formatting machinery into symbolic execution.
pub fn tlv_code_display_stub(_c: &cfdp_core::pdu::MetadataTLVFieldCode, _f: &mut std::fmt::Formatter<'_>) -> std::fmt::Result {
    Ok(())
}

/// S7: `PDUPayload::encode` -> the same two-arm dispatch, matching BY REFERENCE. Moving the inner `Operations` value out
/// of the niche-optimised `PDUPayload` enum makes CBMC lose the (concrete) variant and execute every encoder on
/// garbage; the by-reference form keeps it. The replaced body is `match self { Directive(o) => o.encode(f),
/// FileData(d) => d.encode(f) }`.
pub fn payload_encode_stub(p: cfdp_core::pdu::PDUPayload, f: cfdp_core::pdu::FileSizeFlag) -> Vec<u8> {
    use cfdp_core::pdu::{FSSEncode, PDUPayload, SegmentEncode};
    let out = match &p {
        PDUPayload::Directive(o) => o.clone().encode(f),
        PDUPayload::FileData(d) => d.clone().encode(f),
    };
    std::mem::forget(p);
    out
}
