//! C14 — the file checksum is the CCSDS modular checksum, however the data is read.
//! Lengths and chunk sizes are CONCRETE shapes enumerated inside each harness (symbolic ones run out of memory on
//! BufReader's 8 KiB buffer); the content is symbolic.
use cfdp_core::filestore::{ChecksumType, FileChecksum};
use std::io::{Cursor, Read, Seek, SeekFrom};

const CAP: usize = 16;
/// reader that hands out at most `chunk` bytes per read (a short-reading file / pipe)
struct Chunky {
    data: [u8; CAP],
    len: usize,
    pos: usize,
    chunk: usize,
}
impl Read for Chunky {
    fn read(&mut self, buf: &mut [u8]) -> std::io::Result<usize> {
        let rem = self.len - self.pos;
        let mut n = if rem < self.chunk { rem } else { self.chunk };
        if buf.len() < n {
            n = buf.len();
        }
        buf[..n].copy_from_slice(&self.data[self.pos..self.pos + n]);
        self.pos += n;
        Ok(n)
    }
}
impl Seek for Chunky {
    fn seek(&mut self, p: SeekFrom) -> std::io::Result<u64> {
        match p {
            SeekFrom::Start(x) => {
                self.pos = x as usize;
                Ok(x)
            }
            _ => {
                self.pos = 0;
                Ok(0)
            }
        }
    }
}
/// the CCSDS definition: wrapping sum of the big-endian words of the zero-padded content
fn reference(data: &[u8; CAP], len: usize) -> u32 {
    let mut want: u32 = 0;
    let mut i = 0;
    while i < len {
        want = want.wrapping_add((data[i] as u32) << (8 * (3 - (i % 4))));
        i += 1;
    }
    want
}
fn case(data: &[u8; CAP], len: usize, chunk: usize) {
    let mut r = Chunky { data: *data, len, pos: kani::any(), chunk };
    kani::assume(r.pos <= len);
    let got = r.checksum(ChecksumType::Modular).unwrap();
    assert!(got == reference(data, len), "modular checksum == CCSDS definition, whatever the chunking and the initial position");
}

macro_rules! chunk_harness {
    ($name:ident, [$($len:expr),*], [$($chunk:expr),*]) => {
        #[kani::proof]
        #[kani::unwind(19)]
        fn $name() {
            let data: [u8; CAP] = kani::any();
            for len in [$($len as usize),*] {
                for chunk in [$($chunk as usize),*] {
                    case(&data, len, chunk);
                }
            }
            kani::cover!(true, "end");
        }
    };
}
//# funcs=FileChecksum::checksum (Modular) over BufReader; bound=lengths {0,1,2,3,4,5,7,8}, whole reads (chunk 16), content symbolic, initial position symbolic; stubs=none
chunk_harness!(c14_q_whole_reads, [0, 1, 2, 3, 4, 5, 7, 8], [16]);
//# funcs=FileChecksum::checksum (Modular); bound=lengths {1,5,8,11}, reader returns at most 1 or 2 bytes per read; stubs=none
chunk_harness!(c14_q_short_reads_1_2, [1, 5, 8, 11], [1, 2]);
//# funcs=FileChecksum::checksum (Modular); bound=lengths {5,8,11}, reader returns at most 3 or 5 bytes per read; stubs=none
chunk_harness!(c14_q_short_reads_3_5, [5, 8, 11], [3, 5]);
//# funcs=FileChecksum::checksum (Modular); bound=lengths {8,11,16}, reader returns at most 4, 7 or 9 bytes per read; stubs=none
chunk_harness!(c14_q_short_reads_4_7_9, [8, 11, 16], [4, 7, 9]);
//# funcs=FileChecksum::checksum (Modular); bound=lengths {9,10,12,13,14,15,16} whole reads and chunk 6; stubs=none
chunk_harness!(c14_t_more_lengths, [9, 10, 12, 13, 14, 15, 16], [16, 6]);

//# funcs=FileChecksum::checksum over Cursor<Vec<u8>> (Modular and Null); bound=lengths {0,3,6}, content symbolic; stubs=none
#[kani::proof]
#[kani::unwind(19)]
fn c14_q_cursor_and_null() {
    let data: [u8; CAP] = kani::any();
    for len in [0usize, 3, 6] {
        let mut c = Cursor::new(data[..len].to_vec());
        let got = c.checksum(ChecksumType::Modular).unwrap();
        assert!(got == reference(&data, len), "modular checksum of a cursor");
        let null = c.checksum(ChecksumType::Null).unwrap();
        assert!(null == 0, "the null checksum is 0");
        std::mem::forget(c);
    }
    kani::cover!(true, "end");
}

//# funcs=FileChecksum::checksum (Modular); bound=two contents of 7 bytes that differ in exactly one (symbolic) position: the sums differ; stubs=none
#[kani::proof]
#[kani::unwind(19)]
fn c14_q_single_byte_change() {
    let a: [u8; CAP] = kani::any();
    let mut b = a;
    let i: usize = kani::any();
    kani::assume(i < 7);
    b[i] = kani::any();
    kani::assume(b[i] != a[i]);
    let mut ra = Chunky { data: a, len: 7, pos: 0, chunk: 16 };
    let mut rb = Chunky { data: b, len: 7, pos: 0, chunk: 16 };
    let sa = ra.checksum(ChecksumType::Modular).unwrap();
    let sb = rb.checksum(ChecksumType::Modular).unwrap();
    assert!(sa != sb, "sender and receiver disagree on any change of a single byte");
    kani::cover!(true, "end");
}
