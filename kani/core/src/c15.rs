//! C15 — with the CRC option on, corrupted PDUs are rejected (or decode to the original when only spare bits changed).
//! Shapes are concrete (1-byte ids, fixed-size payloads), every field value is symbolic. The error pattern is a
//! symbolic 24-bit mask laid over three consecutive octets starting at a CONCRETE octet i >= 4 whose set bits span at
//! most 16 bit positions: this contains every single-bit flip, every pair of flips at distance < 16 and every burst
//! of length <= 16 that starts in octet i. One harness per PDU kind and start octet.
//! Outside the claim: PDUs with LV/TLV payloads (Metadata, Finished, NAK lists) where a corrupted length octet makes
//! buffer lengths symbolic; identifiers wider than 1 byte; odd-weight patterns wider than 16 bits.
use crate::c05::SEq;
use crate::gen;
use crate::stubs::*;
use cfdp_core::pdu::*;
use std::mem::forget;

fn header1(t: PDUType, len: u16) -> PDUHeader {
    PDUHeader {
        version: gen::u3(),
        pdu_type: t,
        direction: gen::direction(),
        transmission_mode: gen::mode(),
        crc_flag: CRCFlag::Present,
        large_file_flag: FileSizeFlag::Small,
        pdu_data_field_length: len,
        segmentation_control: gen::seg_ctrl(),
        segment_metadata_flag: SegmentedData::NotPresent,
        source_entity_id: VariableID::U8(kani::any()),
        transaction_sequence_number: VariableID::U8(kani::any()),
        destination_entity_id: VariableID::U8(kani::any()),
    }
}
fn pdu_of(kind: u8) -> PDU {
    let payload = match kind {
        0 => PDUPayload::FileData(FileDataPDU::Unsegmented(UnsegmentedFileData { offset: gen::fsv(FileSizeFlag::Small), file_data: gen::bytes(2) })),
        1 => PDUPayload::Directive(Operations::Ack(PositiveAcknowledgePDU {
            directive: PDUDirective::EoF,
            directive_subtype_code: ACKSubDirective::Other,
            condition: gen::condition(),
            transaction_status: gen::tx_status(),
        })),
        2 => PDUPayload::Directive(Operations::EoF(EndOfFile { condition: Condition::NoError, checksum: kani::any(), file_size: gen::fsv(FileSizeFlag::Small), fault_location: None })),
        3 => PDUPayload::Directive(Operations::KeepAlive(KeepAlivePDU { progress: gen::fsv(FileSizeFlag::Small) })),
        _ => PDUPayload::Directive(Operations::Prompt(PromptPDU { nak_or_keep_alive: gen::nak_or_ka() })),
    };
    let t = if kind == 0 { PDUType::FileData } else { PDUType::FileDirective };
    let len = payload.encoded_len(FileSizeFlag::Small);
    PDU { header: header1(t, len), payload }
}
/// 24-bit error pattern whose set bits span at most 16 positions and whose first octet is hit
fn pattern() -> [u8; 3] {
    let m: u32 = kani::any();
    kani::assume(m != 0 && m < (1 << 24));
    kani::assume(m >> 16 != 0); // starts in the first of the three octets
    // span <= 16: after shifting out leading zero bits of the top octet, nothing below bit (24-16-s)
    let top = (m >> 16) as u8;
    let s = top.leading_zeros(); // 0..7 : first set bit is at position s of the window
    let low_allowed = 24 - 16 - s; // bits below this index must be clear
    kani::assume(m & ((1u32 << low_allowed) - 1) == 0);
    [(m >> 16) as u8, (m >> 8) as u8, m as u8]
}
/// decode(encode(p) ^ e) is an error or the original PDU
fn corrupt_at<const L: usize>(kind: u8, i: usize, skip_directive_octet: bool) {
    let p = pdu_of(kind);
    let bytes = p.clone().encode();
    assert!(bytes.len() == L, "concrete shape");
    let mut buf = [0u8; L];
    buf.copy_from_slice(&bytes);
    let e = pattern();
    let mut k = 0;
    while k < 3 {
        if i + k < L {
            buf[i + k] ^= e[k];
        } else {
            kani::assume(e[k] == 0);
        }
        k += 1;
    }
    if skip_directive_octet {
        // the directive octet (index 7) is handled by the *_directive harnesses with concrete resulting codes
        kani::assume(buf[7] == bytes[7]);
    }
    let r = PDU::decode(&mut &buf[..]);
    let bad = match &r {
        Ok(q) => !q.seq(&p),
        Err(_) => false,
    };
    kani::cover!(r.is_err(), "rejected");
    forget(r);
    assert!(!bad, "a corrupted PDU is never accepted as a different PDU");
}
fn unaltered<const L: usize>(kind: u8) {
    let p = pdu_of(kind);
    let bytes = p.clone().encode();
    assert!(bytes.len() == L);
    let r = PDU::decode(&mut &bytes[..]);
    let ok = matches!(&r, Ok(q) if q.seq(&p));
    forget(r);
    assert!(ok, "an unaltered PDU is always accepted");
}

macro_rules! c15 {
    ($name:ident, $l:expr, $kind:expr, $i:expr, $skip:expr) => {
        #[kani::proof]
        #[kani::unwind(24)]
        #[kani::stub(std::fmt::format, fmt_stub)]
        #[kani::stub(<cfdp_core::pdu::MetadataTLVFieldCode as std::fmt::Display>::fmt, tlv_code_display_stub)]
        fn $name() {
            corrupt_at::<$l>($kind, $i, $skip);
        }
    };
}
// ------------------------------------------------ file-data PDU: 4 + 3 ids + 4 offset + 2 data + 2 CRC = 15 octets
//# funcs=PDU::encode,PDU::decode,PDUHeader::decode,FileDataPDU::decode,crc16_ibm_3740; bound=file-data PDU of 15 octets (fields symbolic), pattern starts in octet 4; stubs=S3
c15!(c15_q_filedata_o04, 15, 0, 4, false);
//# funcs=PDU::encode,PDU::decode,crc16_ibm_3740; bound=file-data PDU, pattern starts in octet 5; stubs=S3
c15!(c15_q_filedata_o05, 15, 0, 5, false);
//# funcs=PDU::encode,PDU::decode,crc16_ibm_3740; bound=file-data PDU, pattern starts in octet 6; stubs=S3
c15!(c15_q_filedata_o06, 15, 0, 6, false);
//# funcs=PDU::encode,PDU::decode,crc16_ibm_3740; bound=file-data PDU, pattern starts in octet 7; stubs=S3
c15!(c15_q_filedata_o07, 15, 0, 7, false);
//# funcs=PDU::encode,PDU::decode,crc16_ibm_3740; bound=file-data PDU, pattern starts in octet 8; stubs=S3
c15!(c15_q_filedata_o08, 15, 0, 8, false);
//# funcs=PDU::encode,PDU::decode,crc16_ibm_3740; bound=file-data PDU, pattern starts in octet 9; stubs=S3
c15!(c15_q_filedata_o09, 15, 0, 9, false);
//# funcs=PDU::encode,PDU::decode,crc16_ibm_3740; bound=file-data PDU, pattern starts in octet 10; stubs=S3
c15!(c15_q_filedata_o10, 15, 0, 10, false);
//# funcs=PDU::encode,PDU::decode,crc16_ibm_3740; bound=file-data PDU, pattern starts in octet 11; stubs=S3
c15!(c15_q_filedata_o11, 15, 0, 11, false);
//# funcs=PDU::encode,PDU::decode,crc16_ibm_3740; bound=file-data PDU, pattern starts in octet 12; stubs=S3
c15!(c15_q_filedata_o12, 15, 0, 12, false);
//# funcs=PDU::encode,PDU::decode,crc16_ibm_3740; bound=file-data PDU, pattern starts in octet 13 (CRC); stubs=S3
c15!(c15_q_filedata_o13, 15, 0, 13, false);
//# funcs=PDU::encode,PDU::decode,crc16_ibm_3740; bound=file-data PDU, pattern starts in octet 14 (CRC); stubs=S3
c15!(c15_q_filedata_o14, 15, 0, 14, false);

// ------------------------------------------------ ACK PDU: 4 + 3 ids + 1 directive + 2 + 2 CRC = 12 octets
//# funcs=PDU::decode,Operations::decode,PositiveAcknowledgePDU::decode,crc16_ibm_3740; bound=ACK PDU of 12 octets, pattern starts in octet 4 (directive octet unchanged); stubs=S3
c15!(c15_q_ack_o04, 12, 1, 4, true);
//# funcs=PDU::decode,PositiveAcknowledgePDU::decode,crc16_ibm_3740; bound=ACK PDU, pattern starts in octet 8; stubs=S3
c15!(c15_q_ack_o08, 12, 1, 8, false);
//# funcs=PDU::decode,PositiveAcknowledgePDU::decode,crc16_ibm_3740; bound=ACK PDU, pattern starts in octet 9; stubs=S3
c15!(c15_q_ack_o09, 12, 1, 9, false);
//# funcs=PDU::decode,PositiveAcknowledgePDU::decode,crc16_ibm_3740; bound=ACK PDU, pattern starts in octet 10 (CRC); stubs=S3
c15!(c15_q_ack_o10, 12, 1, 10, false);
//# funcs=PDU::decode,crc16_ibm_3740; bound=ACK PDU, pattern starts in octet 5 / 6 (directive octet unchanged); stubs=S3
c15!(c15_t_ack_o05, 12, 1, 5, true);
c15!(c15_t_ack_o06, 12, 1, 6, true);
c15!(c15_t_ack_o11, 12, 1, 11, false);

//# funcs=PDU::encode,PDU::decode; bound=unaltered file-data, ACK, EOF, KeepAlive, Prompt PDUs with CRC (fields symbolic) are accepted; stubs=S3
#[kani::proof]
#[kani::unwind(24)]
#[kani::stub(std::fmt::format, fmt_stub)]
#[kani::stub(<cfdp_core::pdu::MetadataTLVFieldCode as std::fmt::Display>::fmt, tlv_code_display_stub)]
fn c15_q_unaltered_accepted() {
    unaltered::<15>(0);
    unaltered::<12>(1);
    unaltered::<19>(2);
    unaltered::<14>(3);
    unaltered::<11>(4);
    kani::cover!(true, "end");
}

// ------------------------------------------------ EOF / KeepAlive / Prompt PDUs (thorough tier)
c15!(c15_t_eof_o08, 19, 2, 8, false);
c15!(c15_t_eof_o12, 19, 2, 12, false);
c15!(c15_t_eof_o16, 19, 2, 16, false);
c15!(c15_t_keepalive_o08, 14, 3, 8, false);
c15!(c15_t_keepalive_o11, 14, 3, 11, false);
c15!(c15_t_prompt_o08, 11, 4, 8, false);

