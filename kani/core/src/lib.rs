//! Kani harnesses over the public API of cfdp-core (engine E1, no source hooks).
//! Harness names: c<NN>_q_* = quick tier, c<NN>_t_* = thorough tier only.
//! A `//# key=value; ...` comment directly above a harness is read by /verif/check and copied into evidence.
#![allow(dead_code, unused_imports, unused_macros, clippy::all)]

#[cfg(kani)]
mod stubs {
    include!("../../stubs.rs");
}
#[cfg(kani)]
mod gen;
#[cfg(kani)]
mod c05;
#[cfg(kani)]
mod c06;
#[cfg(kani)]
mod c12;
#[cfg(kani)]
mod c13;
#[cfg(kani)]
mod c14;
#[cfg(kani)]
mod c15;
