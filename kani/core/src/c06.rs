//! C06 — decoding arbitrary bytes never panics, terminates, allocates <= what a length field announces,
//! and whatever is accepted is canonical (decode(encode(p)) == p, encoded_len matches).
//! One harness per public decoder; input = N symbolic bytes + symbolic length n <= N.
use crate::stubs::*;
use cfdp_core::daemon::Report;
use cfdp_core::pdu::*;
use std::mem::forget;

/// PDUEncode decoders
macro_rules! dec_p {
    ($name:ident, $ty:ty, $n:expr, $uw:expr) => {
        #[kani::proof]
        #[kani::unwind($uw)]
        #[kani::stub(std::fmt::format, fmt_stub)]
        #[kani::stub(<cfdp_core::pdu::MetadataTLVFieldCode as std::fmt::Display>::fmt, tlv_code_display_stub)]
        #[kani::stub(core::str::from_utf8, str_from_utf8_stub)]
        fn $name() {
            let b: [u8; $n] = kani::any();
            let n: usize = kani::any();
            kani::assume(n <= $n);
            let r = <$ty as PDUEncode>::decode(&mut &b[..n]);
            if let Ok(p) = &r {
                kani::cover!(true, "accepted");
                let want = p.encoded_len() as usize;
                let e = p.clone().encode();
                assert!(e.len() == want, "encoded_len matches encode");
                let r2 = <$ty as PDUEncode>::decode(&mut &e[..]);
                let same = match &r2 {
                    Ok(q) => q == p,
                    Err(_) => false,
                };
                forget(r2);
                assert!(same, "canonical: decode(encode(p)) == p");
            } else {
                kani::cover!(true, "rejected");
            }
            forget(r);
        }
    };
}

/// FSSEncode decoders (both file-size flags, symbolic)
macro_rules! dec_f {
    ($name:ident, $ty:ty, $n:expr, $uw:expr) => {
        #[kani::proof]
        #[kani::unwind($uw)]
        #[kani::stub(std::fmt::format, fmt_stub)]
        #[kani::stub(<cfdp_core::pdu::MetadataTLVFieldCode as std::fmt::Display>::fmt, tlv_code_display_stub)]
        #[kani::stub(core::str::from_utf8, str_from_utf8_stub)]
        fn $name() {
            let b: [u8; $n] = kani::any();
            let n: usize = kani::any();
            kani::assume(n <= $n);
            let fss = if kani::any() { FileSizeFlag::Large } else { FileSizeFlag::Small };
            let r = <$ty as FSSEncode>::decode(&mut &b[..n], fss);
            if let Ok(p) = &r {
                kani::cover!(true, "accepted");
                let want = p.encoded_len(fss) as usize;
                let e = p.clone().encode(fss);
                assert!(e.len() == want, "encoded_len matches encode");
                let r2 = <$ty as FSSEncode>::decode(&mut &e[..], fss);
                let same = match &r2 {
                    Ok(q) => q == p,
                    Err(_) => false,
                };
                forget(r2);
                assert!(same, "canonical: decode(encode(p)) == p");
            } else {
                kani::cover!(true, "rejected");
            }
            forget(r);
        }
    };
}


/// decode only ("never panics, never loops"): N symbolic bytes, symbolic length n <= N
macro_rules! np_p {
    ($name:ident, $ty:ty, $n:expr, $uw:expr) => {
        #[kani::proof]
        #[kani::unwind($uw)]
        #[kani::stub(std::fmt::format, fmt_stub)]
        #[kani::stub(<cfdp_core::pdu::MetadataTLVFieldCode as std::fmt::Display>::fmt, tlv_code_display_stub)]
        #[kani::stub(core::str::from_utf8, str_from_utf8_stub)]
        fn $name() {
            let b: [u8; $n] = kani::any();
            let n: usize = kani::any();
            kani::assume(n <= $n);
            let r = <$ty as PDUEncode>::decode(&mut &b[..n]);
            kani::cover!(r.is_ok(), "accepted");
            kani::cover!(r.is_err(), "rejected");
            forget(r);
        }
    };
}
macro_rules! np_f {
    ($name:ident, $ty:ty, $n:expr, $uw:expr) => {
        #[kani::proof]
        #[kani::unwind($uw)]
        #[kani::stub(std::fmt::format, fmt_stub)]
        #[kani::stub(<cfdp_core::pdu::MetadataTLVFieldCode as std::fmt::Display>::fmt, tlv_code_display_stub)]
        #[kani::stub(core::str::from_utf8, str_from_utf8_stub)]
        fn $name() {
            let b: [u8; $n] = kani::any();
            let n: usize = kani::any();
            kani::assume(n <= $n);
            let fss = if kani::any() { FileSizeFlag::Large } else { FileSizeFlag::Small };
            let r = <$ty as FSSEncode>::decode(&mut &b[..n], fss);
            kani::cover!(r.is_ok(), "accepted");
            kani::cover!(r.is_err(), "rejected");
            forget(r);
        }
    };
}

// ---------------------------------------------------------------- never panics: every public decoder
//# funcs=PDUHeader::decode,VariableID::try_from; bound=input<=12 bytes (symbolic length); stubs=S3
np_p!(c06_q_np_header, PDUHeader, 12, 14);
//# funcs=VariableID::decode; bound=input<=10 bytes; stubs=S3
np_p!(c06_q_np_variable_id, VariableID, 10, 12);
//# funcs=FlowLabel::decode,read_length_value_pair; bound=input<=6 bytes; stubs=S3
np_p!(c06_q_np_flow_label, FlowLabel, 6, 9);
//# funcs=MessageToUser::decode; bound=input<=6 bytes; stubs=S3
np_p!(c06_q_np_message_to_user, MessageToUser, 6, 9);
//# funcs=FileStoreRequest::decode; bound=input<=8 bytes; stubs=S3,S4
np_p!(c06_q_np_fs_request, FileStoreRequest, 8, 11);
//# funcs=FileStoreResponse::decode,FileStoreStatus::get_status; bound=input<=10 bytes; stubs=S3,S4
np_p!(c06_q_np_fs_response, FileStoreResponse, 10, 13);
//# funcs=MetadataTLV::decode (6 TLV kinds); bound=input<=10 bytes; stubs=S3,S4
np_p!(c06_q_np_metadata_tlv, MetadataTLV, 10, 13);
//# funcs=EndOfFile::decode; bound=input<=16 bytes, both flags; stubs=S3
np_f!(c06_q_np_eof, EndOfFile, 16, 18);
//# funcs=SegmentedFileData::decode; bound=input<=12 bytes, both flags; stubs=S3
np_f!(c06_q_np_seg_filedata, SegmentedFileData, 12, 14);
//# funcs=OriginatingTransactionIDMessage::decode; bound=input<=12 bytes; stubs=S3
np_p!(c06_q_np_uo_originating_id, OriginatingTransactionIDMessage, 12, 14);
//# funcs=ProxyPutRequest::decode; bound=input<=9 bytes; stubs=S3,S4
np_p!(c06_q_np_uo_proxy_put_request, ProxyPutRequest, 9, 12);
//# funcs=DirectoryListingRequest::decode; bound=input<=7 bytes; stubs=S3,S4
np_p!(c06_q_np_uo_dir_request, DirectoryListingRequest, 7, 10);
//# funcs=DirectoryListingResponse::decode; bound=input<=8 bytes; stubs=S3,S4
np_p!(c06_q_np_uo_dir_response, DirectoryListingResponse, 8, 11);
//# funcs=RemoteStatusReportRequest::decode; bound=input<=12 bytes; stubs=S3,S4
np_p!(c06_q_np_uo_status_request, RemoteStatusReportRequest, 12, 15);
//# funcs=RemoteStatusReportResponse::decode; bound=input<=12 bytes; stubs=S3
np_p!(c06_q_np_uo_status_response, RemoteStatusReportResponse, 12, 14);
//# funcs=RemoteSuspendRequest::decode,RemoteResumeRequest::decode; bound=input<=12 bytes; stubs=S3
np_p!(c06_q_np_uo_suspend_request, RemoteSuspendRequest, 12, 14);
//# funcs=RemoteSuspendResponse::decode; bound=input<=12 bytes; stubs=S3
np_p!(c06_q_np_uo_suspend_response, RemoteSuspendResponse, 12, 14);
//# funcs=RemoteResumeRequest::decode; bound=input<=12 bytes; stubs=S3
np_p!(c06_q_np_uo_resume_request, RemoteResumeRequest, 12, 14);
//# funcs=RemoteResumeResponse::decode; bound=input<=12 bytes; stubs=S3
np_p!(c06_q_np_uo_resume_response, RemoteResumeResponse, 12, 14);
//# funcs=SFORequest::decode; bound=input<=14 bytes; stubs=S3,S4
np_p!(c06_q_np_uo_sfo_request, SFORequest, 14, 17);
//# funcs=SFOReport::decode; bound=input<=14 bytes; stubs=S3
np_p!(c06_q_np_uo_sfo_report, SFOReport, 14, 17);

//# funcs=Report::decode; bound=input<=12 bytes; stubs=S3
#[kani::proof]
#[kani::unwind(14)]
#[kani::stub(std::fmt::format, fmt_stub)]
#[kani::stub(<cfdp_core::pdu::MetadataTLVFieldCode as std::fmt::Display>::fmt, tlv_code_display_stub)]
fn c06_q_np_report() {
    let b: [u8; 12] = kani::any();
    let n: usize = kani::any();
    kani::assume(n <= 12);
    let r = Report::decode(&mut &b[..n]);
    kani::cover!(r.is_ok(), "accepted");
    kani::cover!(r.is_err(), "rejected");
    forget(r);
}

/// UserOperation dispatch: "cfdp" + a CONCRETE message-type octet per case (a symbolic one makes CBMC execute all
/// 27 decoders on every path) + symbolic rest; validity of the type octet itself is decided separately below.
fn userop_case<const N: usize>(t: u8) {
    let mut b: [u8; N] = kani::any();
    b[0] = b'c';
    b[1] = b'f';
    b[2] = b'd';
    b[3] = b'p';
    b[4] = t;
    let n: usize = kani::any();
    kani::assume(n <= N);
    let r = <UserOperation as PDUEncode>::decode(&mut &b[..n]);
    kani::cover!(r.is_ok(), "accepted");
    forget(r);
}
macro_rules! np_uo {
    ($name:ident, $n:expr, $uw:expr, [$($t:expr),*]) => {
        #[kani::proof]
        #[kani::unwind($uw)]
        #[kani::stub(std::fmt::format, fmt_stub)]
        #[kani::stub(<cfdp_core::pdu::MetadataTLVFieldCode as std::fmt::Display>::fmt, tlv_code_display_stub)]
        #[kani::stub(core::str::from_utf8, str_from_utf8_stub)]
        fn $name() {
            $( userop_case::<$n>($t); )*
        }
    };
}
//# funcs=UserOperation::decode dispatch, message types 0x00-0x05; bound=input<=10 bytes; stubs=S3,S4
np_uo!(c06_x_np_userop_00_05, 10, 13, [0x00, 0x01, 0x02, 0x03, 0x04, 0x05]);
//# funcs=UserOperation::decode dispatch, message types 0x06-0x0B; bound=input<=10 bytes; stubs=S3,S4
np_uo!(c06_x_np_userop_06_0b, 10, 13, [0x06, 0x07, 0x08, 0x09, 0x0A, 0x0B]);
//# funcs=UserOperation::decode dispatch, message types 0x10-0x21; bound=input<=10 bytes; stubs=S3,S4
np_uo!(c06_x_np_userop_10_21, 10, 13, [0x10, 0x11, 0x20, 0x21]);
//# funcs=UserOperation::decode dispatch, message types 0x30-0x39; bound=input<=10 bytes; stubs=S3
np_uo!(c06_x_np_userop_30_39, 10, 13, [0x30, 0x31, 0x38, 0x39]);
//# funcs=UserOperation::decode dispatch, message types 0x40-0x46; bound=input<=10 bytes; stubs=S3,S4
np_uo!(c06_x_np_userop_40_46, 10, 13, [0x40, 0x41, 0x42, 0x43, 0x44, 0x45, 0x46]);
//# funcs=UserOperation::decode: wrong identifier or unknown message type is an error; bound=5 symbolic octets; stubs=S3
#[kani::proof]
#[kani::unwind(8)]
#[kani::stub(std::fmt::format, fmt_stub)]
#[kani::stub(<cfdp_core::pdu::MetadataTLVFieldCode as std::fmt::Display>::fmt, tlv_code_display_stub)]
fn c06_q_np_userop_reject() {
    let b: [u8; 5] = kani::any();
    let t = b[4];
    let known = t <= 0x0B || t == 0x10 || t == 0x11 || t == 0x20 || t == 0x21 || t == 0x30 || t == 0x31 || t == 0x38
        || t == 0x39 || (t >= 0x40 && t <= 0x46);
    kani::assume(!(b[0] == b'c' && b[1] == b'f' && b[2] == b'd' && b[3] == b'p') || !known);
    let r = <UserOperation as PDUEncode>::decode(&mut &b[..]);
    // with 5 octets nothing but ProxyPutCancel (0x09) could be accepted, and that one is a known type
    assert!(r.is_err());
    forget(r);
    kani::cover!(true, "end");
}

/// Operations dispatch with a CONCRETE directive octet per case
fn operations_case<const N: usize>(d: u8) {
    let mut b: [u8; N] = kani::any();
    b[0] = d;
    let n: usize = kani::any();
    kani::assume(n <= N);
    let fss = if kani::any() { FileSizeFlag::Large } else { FileSizeFlag::Small };
    let r = <Operations as FSSEncode>::decode(&mut &b[..n], fss);
    kani::cover!(r.is_ok(), "accepted");
    forget(r);
}
//# funcs=Operations::decode dispatch for EoF, Ack, Prompt, KeepAlive and the invalid codes 0x00,0x03,0x0A,0x0D,0xFF; bound=input<=12 bytes; stubs=S3
#[kani::proof]
#[kani::unwind(14)]
#[kani::stub(std::fmt::format, fmt_stub)]
#[kani::stub(<cfdp_core::pdu::MetadataTLVFieldCode as std::fmt::Display>::fmt, tlv_code_display_stub)]
fn c06_x_np_operations() {
    operations_case::<12>(0x04);
    operations_case::<4>(0x06);
    operations_case::<3>(0x09);
    operations_case::<10>(0x0C);
    operations_case::<3>(0x00);
    operations_case::<3>(0x03);
    operations_case::<3>(0x0A);
    operations_case::<3>(0x0D);
    operations_case::<3>(0xFF);
}

// ---------------------------------------------------------------- canonical acceptance, arbitrary bytes (fixed-size types)
//# funcs=PositiveAcknowledgePDU::decode/encode; bound=input<=3 bytes; stubs=S3
dec_p!(c06_q_canon_ack, PositiveAcknowledgePDU, 3, 5);
//# funcs=PromptPDU::decode/encode; bound=input<=2 bytes; stubs=S3
dec_p!(c06_q_canon_prompt, PromptPDU, 2, 4);
//# funcs=FaultHandlerOverride::decode/encode; bound=input<=2 bytes; stubs=S3
dec_p!(c06_q_canon_fault_handler, FaultHandlerOverride, 2, 4);
//# funcs=TransmissionMode::decode/encode; bound=input<=2 bytes; stubs=S3
dec_p!(c06_q_canon_transmission_mode, TransmissionMode, 2, 4);
//# funcs=ProxyPutResponse::decode/encode; bound=input<=2 bytes; stubs=S3
dec_p!(c06_q_canon_proxy_put_response, ProxyPutResponse, 2, 4);
//# funcs=ProxySegmentationControl::decode/encode; bound=input<=2 bytes; stubs=S3
dec_p!(c06_q_canon_proxy_seg_control, ProxySegmentationControl, 2, 4);
//# funcs=KeepAlivePDU::decode/encode; bound=input<=9 bytes, both flags; stubs=S3
dec_f!(c06_q_canon_keepalive, KeepAlivePDU, 9, 11);
//# funcs=SegmentRequestForm::decode/encode; bound=input<=17 bytes, both flags; stubs=S3
dec_f!(c06_q_canon_segment_request, SegmentRequestForm, 17, 19);
//# funcs=UnsegmentedFileData::decode/encode; bound=input<=12 bytes, both flags; stubs=S3
dec_f!(c06_q_canon_unseg_filedata, UnsegmentedFileData, 12, 14);

// ---------------------------------------------------------------- canonical acceptance on concrete shapes
// TLV-loop / LV decoders do not finish on inputs with symbolic length octets (DESIGN 4, C06); for them the input is
// the encoding of a symbolic value of concrete shape whose flag octet (octet 0: condition/codes/spare bits) is
// then made fully arbitrary. Whatever is accepted must re-encode and decode to itself.
use crate::c05::SEq;
use crate::gen;

fn canon_shape_p<T>(v: T)
where
    T: PDUEncode<PDUType = T> + Clone + SEq,
{
    let mut e = v.encode();
    e[0] = kani::any();
    let r = T::decode(&mut &e[..]);
    if let Ok(p) = &r {
        kani::cover!(true, "accepted");
        let want = p.encoded_len() as usize;
        let e2 = p.clone().encode();
        assert!(e2.len() == want, "encoded_len matches encode");
        let r2 = T::decode(&mut &e2[..]);
        let same = match &r2 {
            Ok(q) => q.seq(p),
            Err(_) => false,
        };
        forget(r2);
        assert!(same, "canonical: decode(encode(p)) == p");
    }
    forget(r);
}
fn canon_shape_f<T>(v: T, flag: FileSizeFlag)
where
    T: FSSEncode<PDUType = T> + Clone + SEq,
{
    let mut e = v.encode(flag);
    e[0] = kani::any();
    let r = T::decode(&mut &e[..], flag);
    if let Ok(p) = &r {
        kani::cover!(true, "accepted");
        let want = p.encoded_len(flag) as usize;
        let e2 = p.clone().encode(flag);
        assert!(e2.len() == want, "encoded_len matches encode");
        let r2 = T::decode(&mut &e2[..], flag);
        let same = match &r2 {
            Ok(q) => q.seq(p),
            Err(_) => false,
        };
        forget(r2);
        assert!(same, "canonical: decode(encode(p)) == p");
    }
    forget(r);
}

//# funcs=FileStoreRequest::decode/encode,FileStoreResponse::decode/encode; bound=shapes names (0,0),(1,3),(3,1), message {0,1}; octet 0 arbitrary; stubs=S3,S4; outside=inputs whose length octets are not those of a valid encoding
#[kani::proof]
#[kani::unwind(8)]
#[kani::stub(std::fmt::format, fmt_stub)]
#[kani::stub(<cfdp_core::pdu::MetadataTLVFieldCode as std::fmt::Display>::fmt, tlv_code_display_stub)]
#[kani::stub(core::str::from_utf8, str_from_utf8_stub)]
fn c06_x_shape_filestore() {
    for (l1, l2) in [(0usize, 0usize), (1, 3), (3, 1)] {
        canon_shape_p(gen::fs_request(l1, l2));
        canon_shape_p(gen::fs_response(l1, l2, l2.min(1)));
    }
}
//# funcs=Finished::decode/encode; bound=shapes: 0..=1 responses (names 1, message 1) with/without fault location (4 id widths); octet 0 arbitrary; stubs=S3,S4; outside=other TLV sequences
#[kani::proof]
#[kani::unwind(14)]
#[kani::stub(std::fmt::format, fmt_stub)]
#[kani::stub(<cfdp_core::pdu::MetadataTLVFieldCode as std::fmt::Display>::fmt, tlv_code_display_stub)]
#[kani::stub(core::str::from_utf8, str_from_utf8_stub)]
fn c06_x_shape_finished() {
    let mut k = 0;
    while k <= 1 {
        let mut resp = Vec::new();
        if k == 1 {
            resp.push(gen::fs_response(1, 0, 1));
        }
        let fl = if kani::any() { Some(gen::id()) } else { None };
        canon_shape_p(Finished {
            condition: Condition::CancelReceived,
            delivery_code: gen::delivery(),
            file_status: gen::file_status(),
            filestore_response: resp,
            fault_location: fl,
        });
        k += 1;
    }
}
//# funcs=MetadataPDU::decode/encode,MetadataTLV::decode; bound=shapes: names (0,0),(1,1),(3,1) x options none|1 request|(fault,id); octet 0 arbitrary; stubs=S3,S4; outside=other option sequences
#[kani::proof]
#[kani::unwind(12)]
#[kani::stub(std::fmt::format, fmt_stub)]
#[kani::stub(<cfdp_core::pdu::MetadataTLVFieldCode as std::fmt::Display>::fmt, tlv_code_display_stub)]
#[kani::stub(core::str::from_utf8, str_from_utf8_stub)]
fn c06_x_shape_metadata() {
    let flag = gen::fss();
    for (l1, l2, o) in [(0usize, 0usize, 0u8), (1, 1, 1), (3, 1, 2)] {
        let opts = match o {
            0 => vec![],
            1 => vec![MetadataTLV::FileStoreRequest(gen::fs_request(1, 0))],
            _ => vec![
                MetadataTLV::FaultHandlerOverride(FaultHandlerOverride { fault_handler_code: gen::handler_code() }),
                MetadataTLV::EntityID(gen::id()),
            ],
        };
        canon_shape_f(
            MetadataPDU {
                closure_requested: false,
                checksum_type: cfdp_core::filestore::ChecksumType::Modular,
                file_size: gen::fsv(flag),
                source_filename: gen::path(l1),
                destination_filename: gen::path(l2),
                options: opts,
            },
            flag,
        );
    }
}

/// NAK: the request loop runs on the remaining length, so the input length and the file-size flag are concrete
/// per iteration (symbolic length does not finish); contents fully symbolic.
fn nak_case<const N: usize>(flag: FileSizeFlag) {
    let b: [u8; N] = kani::any();
    let r = <NegativeAcknowledgmentPDU as FSSEncode>::decode(&mut &b[..], flag);
    if let Ok(p) = &r {
        kani::cover!(true, "accepted");
        let want = p.encoded_len(flag) as usize;
        let e = p.clone().encode(flag);
        assert!(e.len() == want, "encoded_len matches encode");
        let r2 = <NegativeAcknowledgmentPDU as FSSEncode>::decode(&mut &e[..], flag);
        let same = match &r2 {
            Ok(q) => q == p,
            Err(_) => false,
        };
        forget(r2);
        assert!(same, "canonical: decode(encode(p)) == p");
    }
    forget(r);
}
macro_rules! nak_h {
    ($name:ident, $n:expr, $flag:expr) => {
        #[kani::proof]
        #[kani::unwind(36)]
        #[kani::stub(std::fmt::format, fmt_stub)]
        fn $name() {
            nak_case::<$n>($flag);
        }
    };
}
//# funcs=NegativeAcknowledgmentPDU::decode/encode; bound=small flag, 8 symbolic octets (scope only, no request); stubs=S3
nak_h!(c06_q_canon_nak_small_8, 8, FileSizeFlag::Small);
//# funcs=NegativeAcknowledgmentPDU::decode/encode,SegmentRequestForm::decode; bound=small flag, 16 symbolic octets (one request); stubs=S3
nak_h!(c06_q_canon_nak_small_16, 16, FileSizeFlag::Small);
//# funcs=NegativeAcknowledgmentPDU::decode/encode; bound=large flag, 16 symbolic octets (scope only); stubs=S3
nak_h!(c06_q_canon_nak_large_16, 16, FileSizeFlag::Large);
//# funcs=NegativeAcknowledgmentPDU::decode/encode,SegmentRequestForm::decode; bound=small flag, 17 symbolic octets (a truncated second request); stubs=S3
nak_h!(c06_x_canon_nak_small_17, 17, FileSizeFlag::Small);
//# funcs=NegativeAcknowledgmentPDU::decode/encode; bound=large flag, 15 symbolic octets (truncated scope); stubs=S3
nak_h!(c06_x_canon_nak_large_15, 15, FileSizeFlag::Large);
//# funcs=NegativeAcknowledgmentPDU::decode/encode,SegmentRequestForm::decode; bound=large flag, 32 symbolic octets (one request); stubs=S3
nak_h!(c06_t_canon_nak_large_32, 32, FileSizeFlag::Large);
//# funcs=NegativeAcknowledgmentPDU::decode/encode; bound=input lengths {0,7,9,15,24} small and {0,17,31,33} large (2 requests, further truncation classes); stubs=S3
#[kani::proof]
#[kani::unwind(36)]
#[kani::stub(std::fmt::format, fmt_stub)]
fn c06_x_canon_nak_more() {
    nak_case::<0>(FileSizeFlag::Small);
    nak_case::<7>(FileSizeFlag::Small);
    nak_case::<9>(FileSizeFlag::Small);
    nak_case::<15>(FileSizeFlag::Small);
    nak_case::<24>(FileSizeFlag::Small);
    nak_case::<0>(FileSizeFlag::Large);
    nak_case::<17>(FileSizeFlag::Large);
    nak_case::<31>(FileSizeFlag::Large);
    nak_case::<33>(FileSizeFlag::Large);
}

/// EOF: canonical acceptance on arbitrary octets at CONCRETE input lengths (the fault-location TLV makes the length
/// of an accepted value depend on its content, so the input length is enumerated: no TLV / 1-, 2-, 4-byte id / a
/// truncated or oversized TLV)
fn eof_case<const N: usize>(flag: FileSizeFlag) {
    let b: [u8; N] = kani::any();
    let r = <EndOfFile as FSSEncode>::decode(&mut &b[..], flag);
    if let Ok(p) = &r {
        kani::cover!(true, "accepted");
        let want = p.encoded_len(flag) as usize;
        let e = p.clone().encode(flag);
        assert!(e.len() == want, "encoded_len matches encode");
        let r2 = <EndOfFile as FSSEncode>::decode(&mut &e[..], flag);
        let same = match &r2 {
            Ok(q) => q == p,
            Err(_) => false,
        };
        forget(r2);
        assert!(same, "canonical: decode(encode(p)) == p");
    }
    forget(r);
}
macro_rules! eof_h {
    ($name:ident, $n:expr, $flag:expr) => {
        #[kani::proof]
        #[kani::unwind(22)]
        #[kani::stub(std::fmt::format, fmt_stub)]
        #[kani::stub(<cfdp_core::pdu::MetadataTLVFieldCode as std::fmt::Display>::fmt, tlv_code_display_stub)]
        fn $name() {
            eof_case::<$n>($flag);
        }
    };
}
//# funcs=EndOfFile::decode/encode; bound=small flag, 9 symbolic octets (no fault-location TLV); stubs=S3,S3b
eof_h!(c06_q_canon_eof_small_9, 9, FileSizeFlag::Small);
//# funcs=EndOfFile::decode/encode,VariableID::decode; bound=small flag, 12 symbolic octets (1-byte entity id, or a TLV whose length disagrees); stubs=S3,S3b
eof_h!(c06_q_canon_eof_small_12, 12, FileSizeFlag::Small);
//# funcs=EndOfFile::decode/encode,VariableID::decode; bound=small flag, 11 symbolic octets (TLV cut short); stubs=S3,S3b
eof_h!(c06_t_canon_eof_small_11, 11, FileSizeFlag::Small);
//# funcs=EndOfFile::decode/encode,VariableID::decode; bound=small flag, 13 symbolic octets (2-byte id or an unsupported 3-byte length) - NOT REGISTERED: CBMC returns a counterexample that passes when replayed natively (an unresolved encoding problem of this harness, not a finding); stubs=S3,S3b
eof_h!(c06_x_canon_eof_small_13, 13, FileSizeFlag::Small);
//# funcs=EndOfFile::decode/encode; bound=large flag, input lengths 13 (no TLV), 16 (1-byte id), 19 (4-byte id); small flag 15 (4-byte id); stubs=S3,S3b
#[kani::proof]
#[kani::unwind(22)]
#[kani::stub(std::fmt::format, fmt_stub)]
#[kani::stub(<cfdp_core::pdu::MetadataTLVFieldCode as std::fmt::Display>::fmt, tlv_code_display_stub)]
fn c06_x_canon_eof_more() {
    eof_case::<13>(FileSizeFlag::Large);
    eof_case::<16>(FileSizeFlag::Large);
    eof_case::<19>(FileSizeFlag::Large);
    eof_case::<15>(FileSizeFlag::Small);
}
