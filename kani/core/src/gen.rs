//! Symbolic value constructors: every discrete field ranges over its whole enum, integers over their
//! full width, variable-length fields have a CONCRETE length (argument) and SYMBOLIC content.
use camino::Utf8PathBuf;
use cfdp_core::filestore::ChecksumType;
use cfdp_core::pdu::*;

pub fn pick<T: Clone, const N: usize>(xs: [T; N]) -> T {
    let i: usize = kani::any();
    kani::assume(i < N);
    xs[i].clone()
}

pub fn condition() -> Condition {
    pick([
        Condition::NoError,
        Condition::PositiveLimitReached,
        Condition::KeepAliveLimitReached,
        Condition::InvalidTransmissionMode,
        Condition::FileStoreRejection,
        Condition::FileChecksumFailure,
        Condition::FilesizeError,
        Condition::NakLimitReached,
        Condition::InactivityDetected,
        Condition::InvalidFileStructure,
        Condition::CheckLimitReached,
        Condition::UnsupportedChecksumType,
        Condition::SuspendReceived,
        Condition::CancelReceived,
    ])
}
pub fn error_condition() -> Condition {
    let c = condition();
    kani::assume(c != Condition::NoError);
    c
}
pub fn u3() -> U3 {
    pick([U3::Zero, U3::One, U3::Two, U3::Three, U3::Four, U3::Five, U3::Six, U3::Seven])
}
pub fn pdu_type() -> PDUType {
    pick([PDUType::FileDirective, PDUType::FileData])
}
pub fn direction() -> Direction {
    pick([Direction::ToReceiver, Direction::ToSender])
}
pub fn mode() -> TransmissionMode {
    pick([TransmissionMode::Acknowledged, TransmissionMode::Unacknowledged])
}
pub fn crc_flag() -> CRCFlag {
    pick([CRCFlag::NotPresent, CRCFlag::Present])
}
pub fn fss() -> FileSizeFlag {
    pick([FileSizeFlag::Small, FileSizeFlag::Large])
}
pub fn seg_ctrl() -> SegmentationControl {
    pick([SegmentationControl::NotPreserved, SegmentationControl::Preserved])
}
pub fn seg_data() -> SegmentedData {
    pick([SegmentedData::NotPresent, SegmentedData::Present])
}
pub fn nak_or_ka() -> NakOrKeepAlive {
    pick([NakOrKeepAlive::Nak, NakOrKeepAlive::KeepAlive])
}
pub fn delivery() -> DeliveryCode {
    pick([DeliveryCode::Complete, DeliveryCode::Incomplete])
}
pub fn file_status() -> FileStatusCode {
    pick([
        FileStatusCode::Discarded,
        FileStatusCode::FileStoreRejection,
        FileStatusCode::Retained,
        FileStatusCode::Unreported,
    ])
}
pub fn tx_status() -> TransactionStatus {
    pick([
        TransactionStatus::Undefined,
        TransactionStatus::Active,
        TransactionStatus::Terminated,
        TransactionStatus::Unrecognized,
    ])
}
pub fn handler_code() -> HandlerCode {
    pick([
        HandlerCode::NoticeOfCancellation,
        HandlerCode::NoticeOfSuspension,
        HandlerCode::IgnoreError,
        HandlerCode::AbandonTransaction,
    ])
}
pub fn listing_code() -> ListingResponseCode {
    pick([ListingResponseCode::Successful, ListingResponseCode::Unsuccessful])
}
pub fn rcs() -> RecordContinuationState {
    pick([
        RecordContinuationState::First,
        RecordContinuationState::Last,
        RecordContinuationState::Unsegmented,
        RecordContinuationState::Interim,
    ])
}
pub fn checksum_type() -> ChecksumType {
    pick([ChecksumType::Modular, ChecksumType::Null])
}
pub fn fs_action() -> FileStoreAction {
    pick([
        FileStoreAction::CreateFile,
        FileStoreAction::DeleteFile,
        FileStoreAction::RenameFile,
        FileStoreAction::AppendFile,
        FileStoreAction::ReplaceFile,
        FileStoreAction::CreateDirectory,
        FileStoreAction::RemoveDirectory,
        FileStoreAction::DenyFile,
        FileStoreAction::DenyDirectory,
    ])
}
pub fn fs_status() -> FileStoreStatus {
    let k: u8 = kani::any();
    kani::assume(k < 9);
    match k {
        0 => FileStoreStatus::CreateFile(pick([
            CreateFileStatus::Successful,
            CreateFileStatus::NotAllowed,
            CreateFileStatus::NotPerformed,
        ])),
        1 => FileStoreStatus::DeleteFile(pick([
            DeleteFileStatus::Successful,
            DeleteFileStatus::FileDoesNotExist,
            DeleteFileStatus::DeleteNotAllowed,
            DeleteFileStatus::NotPerformed,
        ])),
        2 => FileStoreStatus::RenameFile(pick([
            RenameStatus::Successful,
            RenameStatus::OldFilenameDoesNotExist,
            RenameStatus::NewFilenameAlreadyExists,
            RenameStatus::RenameNotAllowed,
            RenameStatus::NotPerformed,
        ])),
        3 => FileStoreStatus::AppendFile(pick([
            AppendStatus::Successful,
            AppendStatus::Filename1DoesNotExist,
            AppendStatus::Filename2DoesNotExist,
            AppendStatus::NotAllowed,
            AppendStatus::NotPerformed,
        ])),
        4 => FileStoreStatus::ReplaceFile(pick([
            ReplaceStatus::Successful,
            ReplaceStatus::Filename1DoesNotExist,
            ReplaceStatus::Filename2DoesNotExist,
            ReplaceStatus::NotAllowed,
            ReplaceStatus::NotPerformed,
        ])),
        5 => FileStoreStatus::CreateDirectory(pick([
            CreateDirectoryStatus::Successful,
            CreateDirectoryStatus::DirectoryCannotBeCreated,
            CreateDirectoryStatus::NotPerformed,
        ])),
        6 => FileStoreStatus::RemoveDirectory(pick([
            RemoveDirectoryStatus::Successful,
            RemoveDirectoryStatus::DirectoryDoesNotExist,
            RemoveDirectoryStatus::DeleteNotAllowed,
            RemoveDirectoryStatus::NotPerformed,
        ])),
        7 => FileStoreStatus::DenyFile(pick([
            DenyStatus::Successful,
            DenyStatus::NotAllowed,
            DenyStatus::NotPerformed,
        ])),
        _ => FileStoreStatus::DenyDirectory(pick([
            DenyStatus::Successful,
            DenyStatus::NotAllowed,
            DenyStatus::NotPerformed,
        ])),
    }
}

/// identifier of the given byte width (1, 2, 4, 8), full value range
pub fn id_w(width: u8) -> VariableID {
    match width {
        1 => VariableID::U8(kani::any()),
        2 => VariableID::U16(kani::any()),
        4 => VariableID::U32(kani::any()),
        _ => VariableID::U64(kani::any()),
    }
}
// Identifier widths are CONCRETE per harness iteration (a symbolic width makes every buffer length symbolic, which
// does not finish); harnesses loop over width pairs with `widths(..)`. Values stay fully symbolic.
static mut W1: u8 = 1;
static mut W2: u8 = 1;
pub fn set_widths(a: u8, b: u8) {
    unsafe {
        W1 = a;
        W2 = b;
    }
}
/// all ordered pairs that exercise each width in each position
pub const WIDTHS: [(u8, u8); 4] = [(1, 8), (2, 4), (4, 2), (8, 1)];
pub const WIDTHS_T: [(u8, u8); 4] = [(1, 1), (2, 2), (4, 4), (8, 8)];
pub fn widths<F: FnMut()>(list: &[(u8, u8)], mut f: F) {
    for &(a, b) in list {
        set_widths(a, b);
        f();
    }
}
pub fn width() -> u8 {
    unsafe { W1 }
}
/// entity-id-like identifier (first width of the current pair)
pub fn id() -> VariableID {
    id_w(unsafe { W1 })
}
/// sequence-number-like identifier (second width of the current pair)
pub fn id2() -> VariableID {
    id_w(unsafe { W2 })
}

/// file size / offset value that fits the flag (offsets < 2^32 under the small flag)
pub fn fsv(flag: FileSizeFlag) -> u64 {
    let v: u64 = kani::any();
    if flag == FileSizeFlag::Small {
        kani::assume(v <= u32::MAX as u64);
    }
    v
}

/// `len` symbolic bytes (concrete length)
pub fn bytes(len: usize) -> Vec<u8> {
    let mut v = Vec::with_capacity(len);
    let mut i = 0;
    while i < len {
        v.push(kani::any::<u8>());
        i += 1;
    }
    v
}
/// ASCII string of concrete length, symbolic content (S4: names are ASCII)
pub fn ascii(len: usize) -> String {
    let mut v = Vec::with_capacity(len);
    let mut i = 0;
    while i < len {
        let b: u8 = kani::any();
        kani::assume(b < 0x80);
        v.push(b);
        i += 1;
    }
    unsafe { String::from_utf8_unchecked(v) }
}
pub fn path(len: usize) -> Utf8PathBuf {
    Utf8PathBuf::from(ascii(len))
}

pub fn fs_request(l1: usize, l2: usize) -> FileStoreRequest {
    FileStoreRequest { action_code: fs_action(), first_filename: path(l1), second_filename: path(l2) }
}
pub fn fs_response(l1: usize, l2: usize, l3: usize) -> FileStoreResponse {
    FileStoreResponse {
        action_and_status: fs_status(),
        first_filename: path(l1),
        second_filename: path(l2),
        filestore_message: bytes(l3),
    }
}

/// header with equal-width entity ids (the wire format shares one length nibble)
pub fn header(ptype: PDUType, len: u16) -> PDUHeader {
    let w = width();
    let crc = crc_flag();
    if crc == CRCFlag::Present {
        kani::assume(len <= 65533);
    }
    PDUHeader {
        version: u3(),
        pdu_type: ptype,
        direction: direction(),
        transmission_mode: mode(),
        crc_flag: crc,
        large_file_flag: fss(),
        pdu_data_field_length: len,
        segmentation_control: seg_ctrl(),
        segment_metadata_flag: seg_data(),
        source_entity_id: id_w(w),
        transaction_sequence_number: id2(),
        destination_entity_id: id_w(w),
    }
}
