//! C05 — every well-formed PDU survives encode then decode unchanged, and encoded_len == bytes produced.
//! One harness per type; discrete fields over the whole enum, identifiers over {1,2,4,8} bytes x full value
//! range, integers full width; variable-length fields: concrete length list, symbolic content.
//!
//! Equality is STRUCTURAL with file names compared as byte strings (`SEq`): `Utf8PathBuf == Utf8PathBuf` compares
//! path components, which (a) would accept "a//b" for "a/b" and (b) does not finish under symbolic bytes.
use crate::gen::*;
use crate::stubs::*;
use camino::Utf8PathBuf;
use cfdp_core::daemon::Report;
use cfdp_core::pdu::*;
use cfdp_core::transaction::{TransactionID, TransactionState};
use std::mem::forget;

pub trait SEq {
    fn seq(&self, o: &Self) -> bool;
}
macro_rules! seq_by_eq {
    ($($t:ty),*) => { $(impl SEq for $t { fn seq(&self, o: &Self) -> bool { self == o } })* };
}
seq_by_eq!(
    PDUHeader, VariableID, PositiveAcknowledgePDU, PromptPDU, FaultHandlerOverride, TransmissionMode, ProxyPutResponse,
    EndOfFile, KeepAlivePDU, SegmentRequestForm, NegativeAcknowledgmentPDU, FlowLabel, MessageToUser,
    UnsegmentedFileData, SegmentedFileData, FileDataPDU, OriginatingTransactionIDMessage, RemoteStatusReportResponse,
    RemoteSuspendRequest, RemoteSuspendResponse, RemoteResumeRequest, RemoteResumeResponse, ProxySegmentationControl
);
fn peq(a: &Utf8PathBuf, b: &Utf8PathBuf) -> bool {
    a.as_str().as_bytes() == b.as_str().as_bytes()
}
impl SEq for FileStoreRequest {
    fn seq(&self, o: &Self) -> bool {
        self.action_code == o.action_code && peq(&self.first_filename, &o.first_filename) && peq(&self.second_filename, &o.second_filename)
    }
}
impl SEq for FileStoreResponse {
    fn seq(&self, o: &Self) -> bool {
        self.action_and_status == o.action_and_status
            && peq(&self.first_filename, &o.first_filename)
            && peq(&self.second_filename, &o.second_filename)
            && self.filestore_message == o.filestore_message
    }
}
impl SEq for MetadataTLV {
    fn seq(&self, o: &Self) -> bool {
        match (self, o) {
            (Self::FileStoreRequest(a), Self::FileStoreRequest(b)) => a.seq(b),
            (Self::FileStoreResponse(a), Self::FileStoreResponse(b)) => a.seq(b),
            (Self::MessageToUser(a), Self::MessageToUser(b)) => a == b,
            (Self::FaultHandlerOverride(a), Self::FaultHandlerOverride(b)) => a == b,
            (Self::FlowLabel(a), Self::FlowLabel(b)) => a == b,
            (Self::EntityID(a), Self::EntityID(b)) => a == b,
            _ => false,
        }
    }
}
impl<T: SEq> SEq for Vec<T> {
    fn seq(&self, o: &Self) -> bool {
        if self.len() != o.len() {
            return false;
        }
        let mut i = 0;
        let mut ok = true;
        while i < self.len() {
            if !self[i].seq(&o[i]) {
                ok = false;
            }
            i += 1;
        }
        ok
    }
}
impl SEq for MetadataPDU {
    fn seq(&self, o: &Self) -> bool {
        self.closure_requested == o.closure_requested
            && self.checksum_type == o.checksum_type
            && self.file_size == o.file_size
            && peq(&self.source_filename, &o.source_filename)
            && peq(&self.destination_filename, &o.destination_filename)
            && self.options.seq(&o.options)
    }
}
impl SEq for Finished {
    fn seq(&self, o: &Self) -> bool {
        self.condition == o.condition
            && self.delivery_code == o.delivery_code
            && self.file_status == o.file_status
            && self.fault_location == o.fault_location
            && self.filestore_response.seq(&o.filestore_response)
    }
}
impl SEq for ProxyPutRequest {
    fn seq(&self, o: &Self) -> bool {
        self.destination_entity_id == o.destination_entity_id
            && peq(&self.source_filename, &o.source_filename)
            && peq(&self.destination_filename, &o.destination_filename)
    }
}
impl SEq for DirectoryListingRequest {
    fn seq(&self, o: &Self) -> bool {
        peq(&self.directory_name, &o.directory_name) && peq(&self.directory_filename, &o.directory_filename)
    }
}
impl SEq for DirectoryListingResponse {
    fn seq(&self, o: &Self) -> bool {
        self.response_code == o.response_code
            && peq(&self.directory_name, &o.directory_name)
            && peq(&self.directory_filename, &o.directory_filename)
    }
}
impl SEq for RemoteStatusReportRequest {
    fn seq(&self, o: &Self) -> bool {
        self.source_entity_id == o.source_entity_id
            && self.transaction_sequence_number == o.transaction_sequence_number
            && peq(&self.report_filename, &o.report_filename)
    }
}
impl SEq for UserOperation {
    fn seq(&self, o: &Self) -> bool {
        use ProxyOperation as P;
        use UserOperation as U;
        use UserRequest as Q;
        use UserResponse as R;
        match (self, o) {
            (U::ProxyOperation(P::ProxyPutRequest(a)), U::ProxyOperation(P::ProxyPutRequest(b))) => a.seq(b),
            (U::ProxyOperation(P::ProxyFileStoreRequest(a)), U::ProxyOperation(P::ProxyFileStoreRequest(b))) => a.seq(b),
            (U::SFOFileStoreRequest(a), U::SFOFileStoreRequest(b)) => a.seq(b),
            (U::SFOFileStoreResponse(a), U::SFOFileStoreResponse(b)) => a.seq(b),
            (U::Response(R::ProxyFileStore(a)), U::Response(R::ProxyFileStore(b))) => a.seq(b),
            (U::Response(R::DirectoryListing(a)), U::Response(R::DirectoryListing(b))) => a.seq(b),
            (U::Request(Q::DirectoryListing(a)), U::Request(Q::DirectoryListing(b))) => a.seq(b),
            (U::Request(Q::RemoteStatusReport(a)), U::Request(Q::RemoteStatusReport(b))) => a.seq(b),
            // the remaining variants carry no file names: derived equality (SFORequest / SFOReport cannot be built
            // outside the crate and are covered through their decoders in c06)
            (U::SFORequest(_), _) | (U::SFOReport(_), _) => false,
            (a, b) => a == b,
        }
    }
}
impl SEq for Operations {
    fn seq(&self, o: &Self) -> bool {
        match (self, o) {
            (Self::Metadata(a), Self::Metadata(b)) => a.seq(b),
            (Self::Finished(a), Self::Finished(b)) => a.seq(b),
            (Self::Metadata(_), _) | (Self::Finished(_), _) => false,
            (a, b) => a == b,
        }
    }
}
impl SEq for PDU {
    fn seq(&self, o: &Self) -> bool {
        self.header == o.header
            && match (&self.payload, &o.payload) {
                (PDUPayload::Directive(a), PDUPayload::Directive(b)) => a.seq(b),
                (PDUPayload::FileData(a), PDUPayload::FileData(b)) => a == b,
                _ => false,
            }
    }
}

pub fn rt_p<T>(v: T)
where
    T: PDUEncode<PDUType = T> + Clone + SEq,
{
    let want = v.encoded_len() as usize;
    let e = v.clone().encode();
    assert!(e.len() == want, "encoded_len equals the number of bytes produced");
    let r = T::decode(&mut &e[..]);
    let ok = match &r {
        Ok(q) => q.seq(&v),
        Err(_) => false,
    };
    forget(r);
    forget(e);
    forget(v);
    assert!(ok, "decode(encode(v)) == v");
}
pub fn rt_f<T>(v: T, flag: FileSizeFlag)
where
    T: FSSEncode<PDUType = T> + Clone + SEq,
{
    let want = v.encoded_len(flag) as usize;
    let e = v.clone().encode(flag);
    assert!(e.len() == want, "encoded_len equals the number of bytes produced");
    let r = T::decode(&mut &e[..], flag);
    let ok = match &r {
        Ok(q) => q.seq(&v),
        Err(_) => false,
    };
    forget(r);
    forget(e);
    forget(v);
    assert!(ok, "decode(encode(v)) == v");
}

macro_rules! h {
    ($(#[$m:meta])* $name:ident, $uw:expr, $body:block) => {
        $(#[$m])*
        #[kani::proof]
        #[kani::unwind($uw)]
        #[kani::stub(std::fmt::format, fmt_stub)]
        #[kani::stub(core::str::from_utf8, str_from_utf8_stub)]
        #[kani::stub(<cfdp_core::pdu::MetadataTLVFieldCode as std::fmt::Display>::fmt, tlv_code_display_stub)]
        fn $name() {
            let _: () = $body;
            kani::cover!(true, "end of harness reached");
        }
    };
}

/// harness whose body runs once per CONCRETE identifier-width pair of the list
macro_rules! hw {
    ($(#[$m:meta])* $name:ident, $uw:expr, $list:expr, $body:block) => {
        h!($(#[$m])* $name, $uw, {
            widths(&$list, || $body);
        });
    };
}

// ------------------------------------------------------------------ fixed-size types
//# funcs=PDUHeader::encode/decode/encoded_len; bound=all field values, (entity,sequence) id widths (1,8),(2,4),(4,2),(8,1), full value range, length<=65533 with CRC; stubs=S3
hw!(c05_q_header, 12, WIDTHS, {
    let t = pdu_type();
    rt_p(header(t, kani::any()));
});
//# funcs=PDUHeader::encode/decode/encoded_len; bound=id widths (1,1),(2,2),(4,4),(8,8); stubs=S3
hw!(c05_t_header_equal_widths, 12, WIDTHS_T, {
    let t = pdu_type();
    rt_p(header(t, kani::any()));
});
//# funcs=VariableID::encode/decode (value round trip; VariableID::encoded_len is the identifier WIDTH by design and is checked where it is used: EOF, Finished, TLV, header); bound=4 widths x full value range; stubs=S3
hw!(c05_q_variable_id, 12, WIDTHS, {
    let v = id();
    let e = v.encode();
    assert!(e.len() == v.encoded_len() as usize + 1, "length octet + identifier");
    let r = VariableID::decode(&mut &e[..]);
    let ok = matches!(&r, Ok(q) if *q == v);
    forget(r);
    assert!(ok, "decode(encode(v)) == v");
});
//# funcs=PositiveAcknowledgePDU::encode/decode; bound=(EoF,Other)|(Finished,Finished) x 14 conditions x 4 statuses; stubs=S3
h!(c05_q_ack, 12, {
    let (d, s) = if kani::any() {
        (PDUDirective::EoF, ACKSubDirective::Other)
    } else {
        (PDUDirective::Finished, ACKSubDirective::Finished)
    };
    rt_p(PositiveAcknowledgePDU { directive: d, directive_subtype_code: s, condition: condition(), transaction_status: tx_status() });
});
//# funcs=PromptPDU,FaultHandlerOverride,TransmissionMode,ProxyPutResponse encode/decode; bound=all values; stubs=S3
h!(c05_q_small_fixed, 12, {
    rt_p(PromptPDU { nak_or_keep_alive: nak_or_ka() });
    rt_p(FaultHandlerOverride { fault_handler_code: handler_code() });
    rt_p(mode());
    rt_p(ProxyPutResponse { condition: condition(), delivery_code: delivery(), file_status: file_status() });
});
//# funcs=EndOfFile::encode/decode/encoded_len; bound=both flags, size<2^32 under Small, fault location iff error condition, 4 id widths; stubs=S3
hw!(c05_q_eof, 12, WIDTHS, {
    for flag in [FileSizeFlag::Small, FileSizeFlag::Large] {
        rt_f(EndOfFile { condition: error_condition(), checksum: kani::any(), file_size: fsv(flag), fault_location: Some(id()) }, flag);
    }
    rt_f(EndOfFile { condition: Condition::NoError, checksum: kani::any(), file_size: fsv(FileSizeFlag::Small), fault_location: None }, FileSizeFlag::Small);
    rt_f(EndOfFile { condition: Condition::NoError, checksum: kani::any(), file_size: fsv(FileSizeFlag::Large), fault_location: None }, FileSizeFlag::Large);
});
//# funcs=KeepAlivePDU,SegmentRequestForm encode/decode; bound=both flags, values<2^32 under Small; stubs=S3
h!(c05_q_keepalive_segreq, 12, {
    let flag = fss();
    rt_f(KeepAlivePDU { progress: fsv(flag) }, flag);
    rt_f(SegmentRequestForm { start_offset: fsv(flag), end_offset: fsv(flag) }, flag);
});
fn nak(flag: FileSizeFlag, k: usize) -> NegativeAcknowledgmentPDU {
    let mut reqs = Vec::new();
    let mut i = 0;
    while i < k {
        reqs.push(SegmentRequestForm { start_offset: fsv(flag), end_offset: fsv(flag) });
        i += 1;
    }
    NegativeAcknowledgmentPDU { start_of_scope: fsv(flag), end_of_scope: fsv(flag), segment_requests: reqs }
}
//# funcs=NegativeAcknowledgmentPDU::encode/decode/encoded_len; bound=0..=2 requests, small flag; stubs=S3
h!(c05_q_nak_small, 36, {
    rt_f(nak(FileSizeFlag::Small, 0), FileSizeFlag::Small);
    rt_f(nak(FileSizeFlag::Small, 1), FileSizeFlag::Small);
    rt_f(nak(FileSizeFlag::Small, 2), FileSizeFlag::Small);
});
//# funcs=NegativeAcknowledgmentPDU::encode/decode/encoded_len; bound=0..=2 requests, large flag; stubs=S3
h!(c05_q_nak_large, 52, {
    rt_f(nak(FileSizeFlag::Large, 0), FileSizeFlag::Large);
    rt_f(nak(FileSizeFlag::Large, 1), FileSizeFlag::Large);
    rt_f(nak(FileSizeFlag::Large, 2), FileSizeFlag::Large);
});
//# funcs=Report::encode/decode; bound=all ids/states/statuses/conditions; stubs=S3
hw!(c05_q_report, 12, WIDTHS, {
    let v = Report {
        id: TransactionID(id(), id2()),
        state: pick([TransactionState::Active, TransactionState::Suspended, TransactionState::Terminated]),
        status: tx_status(),
        condition: condition(),
    };
    let e = v.clone().encode();
    let r = Report::decode(&mut &e[..]);
    let ok = match &r {
        Ok(q) => q.id == v.id && q.state == v.state && q.status == v.status && q.condition == v.condition,
        Err(_) => false,
    };
    forget(r);
    assert!(ok, "decode(encode(v)) == v");
});

// ------------------------------------------------------------------ variable-length leaf types
//# funcs=FlowLabel,MessageToUser encode/decode; bound=body length in {0,1,3}; stubs=S3
h!(c05_q_flow_msg, 12, {
    for l in [0usize, 1, 3] {
        rt_p(FlowLabel { value: bytes(l) });
        rt_p(MessageToUser { message_text: bytes(l) });
    }
});
//# funcs=FlowLabel,MessageToUser encode/decode; bound=body length in {7,255}; stubs=S3
h!(c05_t_flow_msg, 260, {
    for l in [7usize, 255] {
        rt_p(FlowLabel { value: bytes(l) });
        rt_p(MessageToUser { message_text: bytes(l) });
    }
});
//# funcs=FileStoreRequest::encode/decode/encoded_len; bound=name lengths (0,0),(1,3),(3,1),(3,0) ASCII, 9 actions; stubs=S3,S4
h!(c05_q_fs_request, 12, {
    for (l1, l2) in [(0usize, 0usize), (1, 3), (3, 1), (3, 0)] {
        rt_p(fs_request(l1, l2));
    }
});
//# funcs=FileStoreRequest::encode/decode; bound=name lengths (255,0),(7,255); stubs=S3,S4
h!(c05_t_fs_request_long, 260, {
    for (l1, l2) in [(255usize, 0usize), (7, 255)] {
        rt_p(fs_request(l1, l2));
    }
});
//# funcs=FileStoreResponse::encode/decode/encoded_len,FileStoreStatus::as_u8/get_status; bound=lengths (0,0,0),(1,3,1),(3,0,3), all 35 action/status pairs; stubs=S3,S4
h!(c05_q_fs_response, 12, {
    for (l1, l2, l3) in [(0usize, 0usize, 0usize), (1, 3, 1), (3, 0, 3)] {
        rt_p(fs_response(l1, l2, l3));
    }
});
//# funcs=UnsegmentedFileData encode/decode; bound=data {0,1,3}, both flags; stubs=S3
h!(c05_q_file_data_unseg, 12, {
    for (flag, l) in [(FileSizeFlag::Small, 0usize), (FileSizeFlag::Large, 1), (FileSizeFlag::Small, 3), (FileSizeFlag::Large, 3)] {
        rt_f(UnsegmentedFileData { offset: fsv(flag), file_data: bytes(l) }, flag);
    }
});
//# funcs=SegmentedFileData encode/decode; bound=(metadata,data) lengths (0,1),(1,0),(3,3), both flags, 4 continuation states; stubs=S3
h!(c05_q_file_data_seg, 12, {
    for (flag, m, l) in [(FileSizeFlag::Small, 0usize, 1usize), (FileSizeFlag::Large, 1, 0), (FileSizeFlag::Small, 3, 3)] {
        rt_f(SegmentedFileData { record_continuation_state: rcs(), segment_metadata: bytes(m), offset: fsv(flag), file_data: bytes(l) }, flag);
    }
});
//# funcs=SegmentedFileData encode/decode; bound=63 bytes of segment metadata (the wire maximum), data 2; stubs=S3
h!(c05_x_file_data_seg63, 68, {
    let flag = fss();
    rt_f(SegmentedFileData { record_continuation_state: rcs(), segment_metadata: bytes(63), offset: fsv(flag), file_data: bytes(2) }, flag);
});

// ------------------------------------------------------------------ TLVs, Metadata, Finished
pub fn tlv(kind: u8, l: usize) -> MetadataTLV {
    match kind {
        0 => MetadataTLV::FileStoreRequest(fs_request(l, 1)),
        1 => MetadataTLV::FileStoreResponse(fs_response(1, l, 1)),
        2 => MetadataTLV::MessageToUser(MessageToUser { message_text: bytes(l) }),
        3 => MetadataTLV::FaultHandlerOverride(FaultHandlerOverride { fault_handler_code: handler_code() }),
        4 => MetadataTLV::FlowLabel(FlowLabel { value: bytes(l) }),
        _ => MetadataTLV::EntityID(id()),
    }
}
//# funcs=MetadataTLV::encode/decode/encoded_len (request); bound=bodies {0,3}; stubs=S3,S4
h!(c05_q_metadata_tlv_request, 12, {
    rt_p(tlv(0, 0));
    rt_p(tlv(0, 3));
});
//# funcs=MetadataTLV::encode/decode/encoded_len (response, message); bound=bodies {0,3}; stubs=S3,S4
h!(c05_x_metadata_tlv_response_message, 12, {
    rt_p(tlv(1, 3));
    rt_p(tlv(2, 0));
    rt_p(tlv(2, 3));
});
//# funcs=MetadataTLV::encode/decode/encoded_len (fault handler, flow label, entity id); bound=bodies {0,3}, 4 id widths; stubs=S3
hw!(c05_q_metadata_tlv_b, 12, WIDTHS, {
    rt_p(tlv(3, 0));
    rt_p(tlv(4, 3));
    rt_p(tlv(5, 0));
});
fn md(flag: FileSizeFlag, l1: usize, l2: usize, opts: Vec<MetadataTLV>) -> MetadataPDU {
    MetadataPDU {
        closure_requested: kani::any(),
        checksum_type: checksum_type(),
        file_size: fsv(flag),
        source_filename: path(l1),
        destination_filename: path(l2),
        options: opts,
    }
}
//# funcs=MetadataPDU::encode/decode/encoded_len; bound=name lengths (0,0),(1,3),(3,1), no options, both flags, both checksum types; stubs=S3,S4
h!(c05_q_metadata_names, 12, {
    for (flag, l1, l2) in [(FileSizeFlag::Small, 0usize, 0usize), (FileSizeFlag::Large, 1, 3), (FileSizeFlag::Small, 3, 1)] {
        rt_f(md(flag, l1, l2, vec![]), flag);
    }
});
//# funcs=MetadataPDU::encode/decode with one filestore-request option; bound=names (1,1), request names (1,1), small flag; stubs=S3,S4
h!(c05_x_metadata_opt_request, 12, {
    rt_f(md(FileSizeFlag::Small, 1, 1, vec![tlv(0, 1)]), FileSizeFlag::Small);
});
//# funcs=MetadataPDU::encode/decode with message / fault-handler options; bound=1 option; stubs=S3,S4
h!(c05_x_metadata_opt_message_fault, 12, {
    rt_f(md(FileSizeFlag::Small, 1, 0, vec![tlv(2, 1)]), FileSizeFlag::Small);
    rt_f(md(FileSizeFlag::Large, 0, 1, vec![tlv(3, 0)]), FileSizeFlag::Large);
});
//# funcs=MetadataPDU::encode/decode with an entity-id option; bound=id widths 8 and 2; stubs=S3,S4
hw!(c05_x_metadata_opt_entity_id, 12, [(8u8, 1u8), (2, 1)], {
    rt_f(md(FileSizeFlag::Large, 0, 1, vec![tlv(5, 0)]), FileSizeFlag::Large);
});
//# funcs=MetadataPDU::encode/decode with two options (request,message); stubs=S3,S4
h!(c05_x_metadata_opt_two, 12, {
    rt_f(md(FileSizeFlag::Small, 1, 1, vec![tlv(0, 1), tlv(2, 1)]), FileSizeFlag::Small);
});
//# funcs=MetadataPDU::encode/decode with response / flow-label options; stubs=S3,S4
h!(c05_x_metadata_opt_response_flow, 12, {
    rt_f(md(FileSizeFlag::Large, 1, 1, vec![tlv(1, 1)]), FileSizeFlag::Large);
    rt_f(md(FileSizeFlag::Large, 1, 0, vec![tlv(4, 1)]), FileSizeFlag::Large);
});
fn fin(k: usize) -> Finished {
    // fault location present iff an error condition (the shape is concrete: error for odd k, none for even k)
    let (c, fl) = if k % 2 == 1 { (error_condition(), Some(id())) } else { (Condition::NoError, None) };
    let mut resp = Vec::new();
    let mut i = 0;
    while i < k {
        resp.push(fs_response(1, i, 1 - i.min(1)));
        i += 1;
    }
    Finished { condition: c, delivery_code: delivery(), file_status: file_status(), filestore_response: resp, fault_location: fl }
}
//# funcs=Finished::encode/decode/encoded_len; bound=no filestore response, no error; stubs=S3,S3b
h!(c05_q_finished_0, 14, {
    rt_p(fin(0));
});
//# funcs=Finished::encode/decode/encoded_len; bound=1 filestore response, error condition with fault location (id widths 8, 1); stubs=S3,S3b,S4
hw!(c05_x_finished_1, 14, [(8u8, 1u8), (1, 1)], {
    rt_p(fin(1));
});
//# funcs=Finished::encode/decode/encoded_len; bound=2 filestore responses; stubs=S3,S3b,S4
h!(c05_x_finished_2, 14, {
    rt_p(fin(2));
});

// ------------------------------------------------------------------ user operations (reserved CFDP messages)
// The inner message types are checked through their own public encode/decode over their full value ranges; the
// UserOperation wrapper ("cfdp" + message type + body) is checked once per variant with a small body.
//# funcs=OriginatingTransactionIDMessage::encode/decode/encoded_len; bound=id widths (1,8),(2,4),(4,2),(8,1) full range; stubs=S3
hw!(c05_q_uo_originating_id, 12, WIDTHS, {
    rt_p(OriginatingTransactionIDMessage { source_entity_id: id(), transaction_sequence_number: id2() });
});
//# funcs=ProxyPutRequest::encode/decode/encoded_len; bound=names (1,3),(0,0) ASCII, 4 id widths; stubs=S3,S4
hw!(c05_q_uo_proxy_put_request, 12, WIDTHS, {
    rt_p(ProxyPutRequest { destination_entity_id: id(), source_filename: path(1), destination_filename: path(3) });
});
//# funcs=DirectoryListingRequest/Response encode/decode; bound=names (1,3),(3,0); stubs=S3,S4
h!(c05_q_uo_directory_listing, 12, {
    rt_p(DirectoryListingRequest { directory_name: path(1), directory_filename: path(3) });
    rt_p(DirectoryListingResponse { response_code: listing_code(), directory_name: path(3), directory_filename: path(0) });
});
//# funcs=RemoteStatusReportRequest::encode/decode; bound=4 id width pairs, name 1; stubs=S3,S4
hw!(c05_q_uo_status_report_request, 12, WIDTHS, {
    rt_p(RemoteStatusReportRequest { source_entity_id: id(), transaction_sequence_number: id2(), report_filename: path(1) });
});
//# funcs=RemoteStatusReportResponse::encode/decode; bound=4 id width pairs, 4 statuses; stubs=S3
hw!(c05_q_uo_status_report_response, 12, WIDTHS, {
    rt_p(RemoteStatusReportResponse { transaction_status: tx_status(), response_code: kani::any(), source_entity_id: id(), transaction_sequence_number: id2() });
});
//# funcs=RemoteSuspendRequest,RemoteResumeRequest encode/decode; bound=4 id width pairs; stubs=S3
hw!(c05_q_uo_suspend_resume_request, 12, WIDTHS, {
    rt_p(RemoteSuspendRequest { source_entity_id: id(), transaction_sequence_number: id2() });
    rt_p(RemoteResumeRequest { source_entity_id: id(), transaction_sequence_number: id2() });
});
//# funcs=RemoteSuspendResponse::encode/decode; bound=4 id width pairs, 4 statuses; stubs=S3
hw!(c05_q_uo_suspend_response, 12, WIDTHS, {
    rt_p(RemoteSuspendResponse { suspend_indication: kani::any(), transaction_status: tx_status(), source_entity_id: id(), transaction_sequence_number: id2() });
});
//# funcs=RemoteResumeResponse::encode/decode; bound=4 id width pairs, 4 statuses; stubs=S3
hw!(c05_q_uo_resume_response, 12, WIDTHS, {
    rt_p(RemoteResumeResponse { suspend_indication: kani::any(), transaction_status: tx_status(), source_entity_id: id(), transaction_sequence_number: id2() });
});

fn uo_wrap(v: UserOperation) {
    rt_p(v);
}
//# funcs=UserOperation::encode/decode/encoded_len/get_message_type (proxy operations); bound=one value of small shape per variant (1-byte ids, names <= 1); stubs=S3,S4
h!(c05_x_uo_wrap_proxy, 12, {
    set_widths(1, 1);
    uo_wrap(UserOperation::ProxyOperation(ProxyOperation::ProxyPutRequest(ProxyPutRequest { destination_entity_id: id(), source_filename: path(1), destination_filename: path(0) })));
    uo_wrap(UserOperation::ProxyOperation(ProxyOperation::ProxyMessageToUser(MessageToUser { message_text: bytes(1) })));
    uo_wrap(UserOperation::ProxyOperation(ProxyOperation::ProxyFileStoreRequest(fs_request(1, 0))));
    uo_wrap(UserOperation::ProxyOperation(ProxyOperation::ProxyFaultHandlerOverride(FaultHandlerOverride { fault_handler_code: handler_code() })));
});
//# funcs=UserOperation::encode/decode (proxy operations, continued); stubs=S3
h!(c05_q_uo_wrap_small, 12, {
    uo_wrap(UserOperation::ProxyOperation(ProxyOperation::ProxyTransmissionMode(mode())));
    uo_wrap(UserOperation::ProxyOperation(ProxyOperation::ProxyFlowLabel(FlowLabel { value: bytes(1) })));
    uo_wrap(UserOperation::ProxyOperation(ProxyOperation::ProxyPutCancel));
    uo_wrap(UserOperation::Response(UserResponse::ProxyPut(ProxyPutResponse { condition: condition(), delivery_code: delivery(), file_status: file_status() })));
});
//# funcs=UserOperation::encode/decode (responses); bound=1-byte ids, names <= 1; stubs=S3,S4
h!(c05_x_uo_wrap_responses, 12, {
    set_widths(1, 1);
    uo_wrap(UserOperation::Response(UserResponse::ProxyFileStore(fs_response(1, 0, 1))));
    uo_wrap(UserOperation::Response(UserResponse::DirectoryListing(DirectoryListingResponse { response_code: listing_code(), directory_name: path(1), directory_filename: path(0) })));
    uo_wrap(UserOperation::Response(UserResponse::RemoteStatusReport(RemoteStatusReportResponse { transaction_status: tx_status(), response_code: kani::any(), source_entity_id: id(), transaction_sequence_number: id2() })));
    uo_wrap(UserOperation::Response(UserResponse::RemoteSuspend(RemoteSuspendResponse { suspend_indication: kani::any(), transaction_status: tx_status(), source_entity_id: id(), transaction_sequence_number: id2() })));
    uo_wrap(UserOperation::Response(UserResponse::RemoteResume(RemoteResumeResponse { suspend_indication: kani::any(), transaction_status: tx_status(), source_entity_id: id(), transaction_sequence_number: id2() })));
});
//# funcs=UserOperation::encode/decode (requests, originating id); bound=1-byte ids, names <= 1; stubs=S3,S4
h!(c05_x_uo_wrap_requests, 12, {
    set_widths(1, 1);
    uo_wrap(UserOperation::OriginatingTransactionIDMessage(OriginatingTransactionIDMessage { source_entity_id: id(), transaction_sequence_number: id2() }));
    uo_wrap(UserOperation::Request(UserRequest::DirectoryListing(DirectoryListingRequest { directory_name: path(1), directory_filename: path(0) })));
    uo_wrap(UserOperation::Request(UserRequest::RemoteStatusReport(RemoteStatusReportRequest { source_entity_id: id(), transaction_sequence_number: id2(), report_filename: path(1) })));
    uo_wrap(UserOperation::Request(UserRequest::RemoteSuspend(RemoteSuspendRequest { source_entity_id: id(), transaction_sequence_number: id2() })));
    uo_wrap(UserOperation::Request(UserRequest::RemoteResume(RemoteResumeRequest { source_entity_id: id(), transaction_sequence_number: id2() })));
});
//# funcs=UserOperation::encode/decode (SFO messages that can be built outside the crate); stubs=S3,S4
h!(c05_x_uo_wrap_sfo, 12, {
    uo_wrap(UserOperation::SFOMessageToUser(MessageToUser { message_text: bytes(1) }));
    uo_wrap(UserOperation::SFOFlowLabel(FlowLabel { value: bytes(1) }));
    uo_wrap(UserOperation::SFOFaultHandlerOverride(FaultHandlerOverride { fault_handler_code: handler_code() }));
    uo_wrap(UserOperation::SFOFileStoreRequest(fs_request(0, 1)));
    uo_wrap(UserOperation::SFOFileStoreResponse(fs_response(0, 1, 0)));
});

// ------------------------------------------------------------------ whole PDUs (header + payload, CRC on and off)
// ★ A whole-PDU decode does not finish (DESIGN 4, C05/C15): `PDU::decode` copies the data field to the heap and
// dispatches on the directive octet read from that copy, so CBMC executes all seven directive decoders on every
// path. The header and every payload codec are decided separately above; what is decided here is the ENCODE side of
// the composition: announced length, header ++ payload layout, the two CRC octets.
fn whole(payload: PDUPayload, crc: CRCFlag, flag: FileSizeFlag) -> PDU {
    let is_dir = matches!(payload, PDUPayload::Directive(_));
    let mut h = header(if is_dir { PDUType::FileDirective } else { PDUType::FileData }, 0);
    h.crc_flag = crc;
    h.large_file_flag = flag;
    h.segment_metadata_flag = SegmentedData::NotPresent;
    h.pdu_data_field_length = payload.encoded_len(flag);
    PDU { header: h, payload }
}
fn encode_side(p: PDU) {
    let want = p.encoded_len() as usize;
    let hb = p.header.clone().encode();
    let plen = p.payload.encoded_len(p.header.large_file_flag) as usize;
    let crc = p.header.crc_flag;
    let e = p.encode();
    assert!(e.len() == want, "PDU::encoded_len equals the number of bytes produced");
    assert!(e.len() == hb.len() + plen + if crc == CRCFlag::Present { 2 } else { 0 }, "header ++ payload (++ CRC)");
    let mut i = 0;
    while i < hb.len() {
        assert!(e[i] == hb[i], "the PDU starts with its header");
        i += 1;
    }
    forget(e);
    forget(hb);
}
/// S9: the CRC value is irrelevant to the encode-side obligations (lengths, header prefix) and its bit loop over
/// symbolic octets costs > 12 GB: any 16-bit value stands in for it (over-approximation; C05 only)
pub fn crc_any_stub(_message: &[u8]) -> u16 {
    kani::any()
}
fn encode_side_cases(crc: CRCFlag, flag: FileSizeFlag, kinds: u8) {
    if kinds & 1 != 0 {
        let ack = Operations::Ack(PositiveAcknowledgePDU {
            directive: PDUDirective::Finished,
            directive_subtype_code: ACKSubDirective::Finished,
            condition: condition(),
            transaction_status: tx_status(),
        });
        encode_side(whole(PDUPayload::Directive(ack), crc, flag));
    }
    if kinds & 2 != 0 {
        encode_side(whole(PDUPayload::Directive(Operations::KeepAlive(KeepAlivePDU { progress: fsv(flag) })), crc, flag));
    }
    if kinds & 4 != 0 {
        encode_side(whole(
            PDUPayload::FileData(FileDataPDU::Unsegmented(UnsegmentedFileData { offset: fsv(flag), file_data: bytes(2) })),
            crc,
            flag,
        ));
    }
}
//# funcs=PDU::encode,PDU::encoded_len,PDUHeader::encode,crc16_ibm_3740; bound=ACK payload, id widths (1,1), CRC on (real CRC routine), small flag; stubs=S3,S7
h!(#[kani::stub(cfdp_core::pdu::PDUPayload::encode, payload_encode_stub)] c05_q_pdu_encode_side_crc_ack, 40, {
    widths(&[(1u8, 1u8)], || encode_side_cases(CRCFlag::Present, FileSizeFlag::Small, 1));
});
//# funcs=PDU::encode,PDU::encoded_len,PDUHeader::encode; bound=ACK / KeepAlive / file data (2 bytes) payloads, id widths (1,8), CRC on with the CRC value abstracted to any u16 (S9), small flag; stubs=S3,S7,S9
h!(#[kani::stub(cfdp_core::pdu::PDUPayload::encode, payload_encode_stub)] #[kani::stub(cfdp_core::pdu::crc16_ibm_3740, crate::c05::crc_any_stub)] c05_q_pdu_encode_side_crc_any, 40, {
    widths(&[(1u8, 8u8)], || encode_side_cases(CRCFlag::Present, FileSizeFlag::Small, 7));
});
//# funcs=PDU::encode,PDU::encoded_len,PDUHeader::encode,crc16_ibm_3740; bound=file data payload (2 bytes), id widths (1,1), CRC on (real CRC routine; 317 s / 12.7 GB alone); stubs=S3,S7
h!(#[kani::stub(cfdp_core::pdu::PDUPayload::encode, payload_encode_stub)] c05_t_pdu_encode_side_crc_filedata, 40, {
    widths(&[(1u8, 1u8)], || encode_side_cases(CRCFlag::Present, FileSizeFlag::Small, 4));
});
//# funcs=PDU::encode,PDU::encoded_len,PDUHeader::encode; bound=ACK / KeepAlive / file data (2 bytes) payloads, id widths (1,8), CRC off, large flag; stubs=S3,S7
h!(#[kani::stub(cfdp_core::pdu::PDUPayload::encode, payload_encode_stub)] c05_q_pdu_encode_side_nocrc, 40, {
    widths(&[(1u8, 8u8)], || encode_side_cases(CRCFlag::NotPresent, FileSizeFlag::Large, 7));
});
//# funcs=PDU::encode,PDU::encoded_len,PDUHeader::encode,crc16_ibm_3740; bound=ACK / KeepAlive / file data payloads, id widths (1,8), CRC on (12 GB were not enough in the quick tier); stubs=S3,S7
h!(#[kani::stub(cfdp_core::pdu::PDUPayload::encode, payload_encode_stub)] c05_x_pdu_encode_side_crc_wide, 40, {
    widths(&[(1u8, 8u8)], || encode_side_cases(CRCFlag::Present, FileSizeFlag::Small, 7));
});
//# funcs=PDU::encode,PDU::encoded_len,PDUHeader::encode,crc16_ibm_3740; bound=as above, id widths (8,2), CRC on+small and CRC off+large; stubs=S3,S7
h!(#[kani::stub(cfdp_core::pdu::PDUPayload::encode, payload_encode_stub)] c05_x_pdu_encode_side_wide, 40, {
    widths(&[(8u8, 2u8)], || {
        encode_side_cases(CRCFlag::Present, FileSizeFlag::Small, 7);
        encode_side_cases(CRCFlag::NotPresent, FileSizeFlag::Large, 7);
    });
});
