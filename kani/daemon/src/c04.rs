//! C04 — a completed delivery is final: late or duplicate PDUs cannot undo or redo it (receiver, one step).
use crate::env::*;
use cfdp_core::{daemon::NakProcedure, filestore::ChecksumType, pdu::*, transaction::TransactionState};
use cfdp_daemon::{transaction::RecvTransaction, verif::{self, VRecvState}};
use std::{mem::forget, time::Duration};

macro_rules! h_unused {
    ($(#[$m:meta])* $name:ident, $uw:expr, $body:block) => {
        $(#[$m])*
        #[kani::proof]
        #[kani::unwind($uw)]
        #[kani::stub(tokio::sync::mpsc::Permit::send, permit_send_stub)]
        #[kani::stub(std::hash::RandomState::new, fixed_keys)]
        #[kani::stub(std::fmt::format, fmt_stub)]
        #[kani::stub(std::fs::File::metadata, file_metadata_stub)]
        #[kani::stub(std::fs::Metadata::len, metadata_len_stub)]
        #[kani::stub(std::io::copy, io_copy_stub)]
        fn $name() $body
    };
}

/// receiver that has already finalised a file transfer of `l` bytes and reported (NoError, Complete, Retained)
fn finalised(l: usize, ch: &Chans, nreq: usize, mode: TransmissionMode) -> RecvTransaction<ModelFs> {
    link_libc();
    verif::set_now(Duration::from_secs(100));
    let content: [u8; CAP] = kani::any();
    set_file(DST, &content[..l]);
    let mut reqs = Vec::new();
    let mut resp = Vec::new();
    let mut i = 0;
    while i < nreq {
        let name = if i == 0 { "" } else { "a" };
        let r = FileStoreRequest {
            action_code: FileStoreAction::CreateFile,
            first_filename: name.into(),
            second_filename: "".into(),
        };
        resp.push(FileStoreResponse {
            action_and_status: FileStoreStatus::CreateFile(CreateFileStatus::Successful),
            first_filename: name.into(),
            second_filename: "".into(),
            filestore_message: vec![],
        });
        reqs.push(r);
        i += 1;
    }
    let mut p = recv_parts(config(mode), NakProcedure::Deferred(Duration::ZERO), ch);
    // (unacknowledged receivers stay open after finalisation only when closure was requested)
    p.metadata = Some(metadata(true, l as u64, mode == TransmissionMode::Unacknowledged, ChecksumType::Modular, reqs));
    p.status = TransactionStatus::Undefined;
    p.recv_state = VRecvState::Finished;
    p.delivery_code = DeliveryCode::Complete;
    p.file_status = FileStatusCode::Retained;
    p.file_size = Some(l as u64);
    p.checksum = Some(ref_checksum(DST, l));
    if l > 0 {
        p.saved_segments.merge((0, l as u64));
    }
    p.received_file_size = l as u64;
    p.nak_received_file_size = l as u64;
    set_field(&mut p.filestore_response, resp.clone());
    p.finished = Some((
        Finished {
            condition: Condition::NoError,
            delivery_code: DeliveryCode::Complete,
            file_status: FileStatusCode::Retained,
            filestore_response: resp,
            fault_location: None,
        },
        false,
    ));
    p.timer.ack = counter(3, 2, 100, 0, false, false);
    p.timer.inactivity = counter(10, 2, 100, 0, false, false);
    RecvTransaction::verif_from_parts(p)
}

fn assert_still_final(t: &RecvTransaction<ModelFs>, nreq: usize) {
    assert!(verif::ind_count_kind(verif::K_FINISHED) == 0, "no second Finished indication");
    assert!(verif::ind_count_kind(verif::K_FAULT) == 0, "no fault declared for a delivered file");
    assert!(t.verif_condition() == Condition::NoError, "condition unchanged");
    assert!(t.verif_delivery_code() == DeliveryCode::Complete, "delivery code unchanged");
    assert!(t.verif_file_status() == FileStatusCode::Retained, "file status unchanged");
    assert!(t.verif_recv_state() == VRecvState::Finished, "still in the finished phase");
    assert!(writes(DST) == 0 && opens(DST) == 0, "delivered file untouched");
    assert!(unsafe { REQ_CALLS } == 0, "filestore requests not executed again");
    assert!(t.verif_filestore_response().len() == nreq, "recorded responses unchanged");
    match t.verif_finished() {
        Some((f, _)) => assert!(
            f.condition == Condition::NoError
                && f.delivery_code == DeliveryCode::Complete
                && f.file_status == FileStatusCode::Retained
                && f.filestore_response.len() == nreq,
            "Finished PDU still carries the original outcome"
        ),
        None => assert!(false, "Finished PDU lost"),
    }
}

//# funcs=RecvTransaction::process_pdu(EoF),check_finished,finalize_receive,verify_checksum,prepare_ack_eof; bound=file length 3 (content symbolic), duplicate EOF with an arbitrary checksum, 0 requests; stubs=S1,S2,S3,S5
th!(c04_q_late_eof, 8, {
    let ch = chans();
    let mut t = finalised(3, &ch, 0, TransmissionMode::Acknowledged);
    // a DUPLICATE of the EOF: same size (a different size would be a new, contradicting PDU); the checksum is left
    // arbitrary, it must not matter any more
    let eof = EndOfFile { condition: Condition::NoError, checksum: kani::any(), file_size: 3, fault_location: None };
    let r = t.process_pdu(directive(TransmissionMode::Acknowledged, Direction::ToReceiver, Operations::EoF(eof)));
    forget(r);
    assert_still_final(&t, 0);
    kani::cover!(t.verif_ack().is_some(), "EOF acknowledged again");
    forget(t);
    forget(ch);
});

const A: TransmissionMode = TransmissionMode::Acknowledged;
//# funcs=RecvTransaction::process_pdu(EoF) unacknowledged mode with closure,finalize_receive; bound=finalised 3-byte transfer waiting for the ACK of its Finished; a duplicate EOF arrives (checksum arbitrary); stubs=S1,S2,S3,S5
th!(c04_q_late_eof_unack_closure, 8, {
    let ch = chans();
    let mut t = finalised(3, &ch, 0, TransmissionMode::Unacknowledged);
    let eof = EndOfFile { condition: Condition::NoError, checksum: kani::any(), file_size: 3, fault_location: None };
    let r = t.process_pdu(directive(TransmissionMode::Unacknowledged, Direction::ToReceiver, Operations::EoF(eof)));
    forget(r);
    assert_still_final(&t, 0);
    kani::cover!(true, "end");
    forget(t);
    forget(ch);
});
//# funcs=RecvTransaction::process_pdu(FileData),store_file_data,check_finished,finalize_receive; bound=finalised 3-byte transfer; a straggling / duplicated data segment (1 arbitrary byte at offset 1) arrives; stubs=S1,S2,S3,S5
th!(c04_q_late_file_data, 8, {
    let ch = chans();
    let mut t = finalised(3, &ch, 0, A);
    let off: u64 = 1;
    let r = t.process_pdu(filedata(A, off, vec![kani::any()]));
    forget(r);
    assert_still_final(&t, 0);
    assert!(t.verif_progress() == 3, "progress unchanged by a duplicate");
    kani::cover!(true, "end");
    forget(t);
    forget(ch);
});
//# funcs=RecvTransaction::process_pdu(Metadata|Prompt); bound=finalised 3-byte transfer; duplicated metadata arrives; stubs=S1,S2,S3,S5
fn late_md_prompt(md_case: bool) {
    let ch = chans();
    let mut t = finalised(3, &ch, 0, A);
    if md_case {
        let md = MetadataPDU {
            closure_requested: kani::any(),
            checksum_type: ChecksumType::Modular,
            file_size: kani::any(),
            source_filename: "s".into(),
            destination_filename: "d".into(),
            options: vec![],
        };
        let r = t.process_pdu(directive(A, Direction::ToReceiver, Operations::Metadata(md)));
        forget(r);
    } else {
        let pr = PromptPDU { nak_or_keep_alive: NakOrKeepAlive::KeepAlive };
        let r = t.process_pdu(directive(A, Direction::ToReceiver, Operations::Prompt(pr)));
        forget(r);
    }
    assert_still_final(&t, 0);
    kani::cover!(true, "end");
    forget(t);
    forget(ch);
}
th!(c04_q_late_metadata, 8, { late_md_prompt(true) });
//# funcs=RecvTransaction::process_pdu(Prompt); bound=finalised 3-byte transfer; a keep-alive prompt arrives; stubs=S1,S2,S3,S5
th!(c04_q_late_prompt, 8, { late_md_prompt(false) });
//# funcs=RecvTransaction::process_pdu(EoF),check_finished,finalize_receive; bound=finalised transfer that executed 2 filestore requests; a duplicate EOF arrives: the requests are not executed again; stubs=S1,S2,S3,S5
th!(c04_q_late_eof_with_requests, 10, {
    let ch = chans();
    let mut t = finalised(3, &ch, 2, A);
    let eof = EndOfFile { condition: Condition::NoError, checksum: kani::any(), file_size: 3, fault_location: None };
    let r = t.process_pdu(directive(A, Direction::ToReceiver, Operations::EoF(eof)));
    forget(r);
    assert_still_final(&t, 2);
    kani::cover!(true, "end");
    forget(t);
    forget(ch);
});

//# funcs=RecvTransaction::process_pdu(EoF),check_finished in phase Cancelled after a completed delivery; bound=delivered 3-byte transfer whose Finished was never acknowledged (ACK limit -> cancelled); a retransmitted EOF arrives; stubs=S1,S2,S3,S5
th!(c04_q_late_eof_after_ack_limit, 8, {
    let ch = chans();
    let t0 = finalised(3, &ch, 0, A);
    let mut p = t0.verif_into_parts();
    p.recv_state = VRecvState::Cancelled;
    p.condition = Condition::PositiveLimitReached;
    let mut t = RecvTransaction::verif_from_parts(p);
    let eof = EndOfFile { condition: Condition::NoError, checksum: kani::any(), file_size: 3, fault_location: None };
    let r = t.process_pdu(directive(A, Direction::ToReceiver, Operations::EoF(eof)));
    forget(r);
    assert!(verif::ind_count_kind(verif::K_FINISHED) == 0, "no second Finished indication");
    assert!(verif::ind_count_kind(verif::K_FAULT) == 0, "no file-integrity fault for a delivered file");
    assert!(t.verif_delivery_code() == DeliveryCode::Complete && t.verif_file_status() == FileStatusCode::Retained, "outcome of the delivery unchanged");
    assert!(writes(DST) == 0 && opens(DST) == 0, "delivered file untouched");
    assert!(unsafe { REQ_CALLS } == 0);
    kani::cover!(true, "end");
    forget(t);
    forget(ch);
});
