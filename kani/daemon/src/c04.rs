//! C04 — a completed delivery is final: late or duplicate PDUs cannot undo or redo it (receiver, one step).
use crate::env::*;
use cfdp_core::{daemon::NakProcedure, filestore::ChecksumType, pdu::*, transaction::TransactionState};
use cfdp_daemon::{transaction::RecvTransaction, verif::{self, VRecvState}};
use std::{mem::forget, time::Duration};

macro_rules! h_unused {
    ($(#[$m:meta])* $name:ident, $uw:expr, $body:block) => {
        $(#[$m])*
        #[kani::proof]
        #[kani::unwind($uw)]
        #[kani::stub(tokio::sync::mpsc::Permit::send, permit_send_stub)]
        #[kani::stub(std::hash::RandomState::new, fixed_keys)]
        #[kani::stub(std::fmt::format, fmt_stub)]
        #[kani::stub(std::fs::File::metadata, file_metadata_stub)]
        #[kani::stub(std::fs::Metadata::len, metadata_len_stub)]
        #[kani::stub(std::io::copy, io_copy_stub)]
        fn $name() $body
    };
}

/// receiver that has already finalised a file transfer of `l` bytes and reported (NoError, Complete, Retained)
fn finalised(l: usize, ch: &Chans, nreq: usize) -> RecvTransaction<ModelFs> {
    link_libc();
    verif::set_now(Duration::from_secs(100));
    let content: [u8; CAP] = kani::any();
    set_file(DST, &content[..l]);
    let mut reqs = Vec::new();
    let mut resp = Vec::new();
    let mut i = 0;
    while i < nreq {
        let name = if i == 0 { "" } else { "a" };
        let r = FileStoreRequest {
            action_code: FileStoreAction::CreateFile,
            first_filename: name.into(),
            second_filename: "".into(),
        };
        resp.push(FileStoreResponse {
            action_and_status: FileStoreStatus::CreateFile(CreateFileStatus::Successful),
            first_filename: name.into(),
            second_filename: "".into(),
            filestore_message: vec![],
        });
        reqs.push(r);
        i += 1;
    }
    let mut p = recv_parts(config(TransmissionMode::Acknowledged), NakProcedure::Deferred(Duration::ZERO), ch);
    p.metadata = Some(metadata(true, l as u64, false, ChecksumType::Modular, reqs));
    p.status = TransactionStatus::Undefined;
    p.recv_state = VRecvState::Finished;
    p.delivery_code = DeliveryCode::Complete;
    p.file_status = FileStatusCode::Retained;
    p.file_size = Some(l as u64);
    p.checksum = Some(ref_checksum(DST, l));
    if l > 0 {
        p.saved_segments.merge((0, l as u64));
    }
    p.received_file_size = l as u64;
    p.nak_received_file_size = l as u64;
    p.filestore_response = resp.clone();
    p.finished = Some((
        Finished {
            condition: Condition::NoError,
            delivery_code: DeliveryCode::Complete,
            file_status: FileStatusCode::Retained,
            filestore_response: resp,
            fault_location: None,
        },
        kani::any(),
    ));
    p.timer.ack = counter(3, 2, 100, 0, false, false);
    p.timer.inactivity = counter(10, 2, 100, 0, false, false);
    RecvTransaction::verif_from_parts(p)
}

fn assert_still_final(t: &RecvTransaction<ModelFs>, nreq: usize) {
    assert!(verif::ind_count_kind(verif::K_FINISHED) == 0, "no second Finished indication");
    assert!(verif::ind_count_kind(verif::K_FAULT) == 0, "no fault declared for a delivered file");
    assert!(t.verif_condition() == Condition::NoError, "condition unchanged");
    assert!(t.verif_delivery_code() == DeliveryCode::Complete, "delivery code unchanged");
    assert!(t.verif_file_status() == FileStatusCode::Retained, "file status unchanged");
    assert!(t.verif_recv_state() == VRecvState::Finished, "still in the finished phase");
    assert!(writes(DST) == 0 && opens(DST) == 0, "delivered file untouched");
    assert!(unsafe { REQ_CALLS } == 0, "filestore requests not executed again");
    assert!(t.verif_filestore_response().len() == nreq, "recorded responses unchanged");
    match t.verif_finished() {
        Some((f, _)) => assert!(
            f.condition == Condition::NoError
                && f.delivery_code == DeliveryCode::Complete
                && f.file_status == FileStatusCode::Retained
                && f.filestore_response.len() == nreq,
            "Finished PDU still carries the original outcome"
        ),
        None => assert!(false, "Finished PDU lost"),
    }
}

//# funcs=RecvTransaction::process_pdu(EoF),check_finished,finalize_receive,verify_checksum,prepare_ack_eof; bound=file length 3 (content symbolic), EOF checksum/size symbolic, 0 requests; stubs=S1,S2,S3,S5
th!(c04_q_late_eof, 8, {
    let ch = chans();
    let mut t = finalised(3, &ch, 0);
    let eof = EndOfFile { condition: Condition::NoError, checksum: kani::any(), file_size: kani::any(), fault_location: None };
    kani::assume(eof.file_size <= 3);
    let _ = t.process_pdu(directive(TransmissionMode::Acknowledged, Direction::ToReceiver, Operations::EoF(eof)));
    assert_still_final(&t, 0);
    kani::cover!(t.verif_ack().is_some(), "EOF acknowledged again");
    forget(t);
    forget(ch);
});
