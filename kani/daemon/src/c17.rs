//! C17 — limit faults fire after exactly the configured expirations; the configured handler runs.
//! Layer 1 (this file, top): the Counter kernel under the virtual clock against a reference counter.
//! Layer 2: one `handle_timeout` / `send_pdu` step of each transaction from constructed states.
use crate::env::*;
use cfdp_core::{daemon::NakProcedure, filestore::ChecksumType, pdu::*, transaction::TransactionState};
use cfdp_daemon::{
    transaction::{RecvTransaction, SendTransaction},
    verif::{self, Counter, CounterParts, VRecvState, VSendState},
};
use std::{mem::forget, time::Duration};

/// reference counter: closed-form expiry arithmetic + ghost "time spent running since the last reset"
struct Ref {
    t: u64,
    n: u32,
    start: u64,
    count: u32,
    occurred: bool,
    paused: bool,
    run_since_reset: u64,
    /// sum of one timeout per counted expiration since the last reset (== count x timeout, without multiplying)
    spent: u64,
    last: u64,
}
impl Ref {
    fn tick(&mut self, now: u64) {
        if !self.paused {
            self.run_since_reset += now - self.last;
        }
        self.last = now;
    }
    fn update(&mut self, now: u64) {
        if self.paused {
            return;
        }
        // number of whole periods elapsed (bounded loop: 64-bit division by a symbolic divisor stalls the solver)
        let mut k = 0u64;
        while k < 9 && now - self.start >= self.t {
            self.start += self.t;
            if (self.count as u64) + k < self.n as u64 {
                self.spent += self.t;
            }
            k += 1;
        }
        if k > 0 {
            let c = self.count as u64 + k;
            self.count = if c > self.n as u64 { self.n } else { c as u32 };
            self.occurred = true;
        }
    }
}

//# funcs=Counter::{restart,reset,update,pause,limit_reached,timeout_occurred,until_timeout}; bound=ONE operation at an arbitrary later clock reading from EVERY counter state satisfying the invariant (timeout 1..=2^20 s, limit 1..=4, count <= limit, start <= clock, a running counter updated less than 2 periods ago, < 3 periods until the operation); inductive: the ghost credit invariant is re-established, so histories of any length are covered; assume=timeout >= 1 s (0 makes update loop forever: configuration precondition); stubs=none (virtual clock hook H2)
#[kani::proof]
#[kani::unwind(8)]
fn c17_q_counter_step() {
    counter_step(false)
}
//# funcs=Counter::{restart,reset,update,pause,limit_reached,timeout_occurred,until_timeout}; bound=the same step from states whose start lies less than 2 periods back ALSO when the counter is paused (a counter paused for up to 5 periods): in the harness above a paused counter may be arbitrarily old, so a change that makes a paused counter count shows there only as a failed unwinding assertion (inconclusive); here it is a counter-example; stubs=none (virtual clock hook H2)
#[kani::proof]
#[kani::unwind(8)]
fn c17_q_counter_step_recent() {
    counter_step(true)
}
fn counter_step(recent: bool) {
    let t: u64 = kani::any();
    let n: u32 = kani::any();
    kani::assume(t >= 1 && t <= (1 << 20) && n >= 1 && n <= 4);
    // ---- arbitrary valid state at clock reading `last`
    let last: u64 = kani::any();
    let start: u64 = kani::any();
    kani::assume(last <= (1 << 30) && start <= last);
    let count: u32 = kani::any();
    kani::assume(count <= n);
    let occurred: bool = kani::any();
    let paused: bool = kani::any();
    kani::assume((paused && !recent) || last - start < 2 * t);
    // ghost: running (unpaused) time since the last reset that no counted expiration has consumed yet.
    // Invariant J: a running counter has not yet consumed the time since `start`.
    let mut credit: u64 = kani::any();
    kani::assume(credit <= (1 << 40));
    kani::assume(paused || credit >= last - start);
    let mut c = Counter::verif_from_parts(CounterParts {
        start_time: Duration::from_secs(start),
        timeout: Duration::from_secs(t),
        max_count: n,
        count,
        occurred,
        paused,
    });
    // ---- the clock advances (running time earns credit), then one operation
    let dt: u64 = kani::any();
    kani::assume(dt < 3 * t);
    let now = last + dt;
    verif::set_now(Duration::from_secs(now));
    if !paused {
        credit += dt;
    }
    // reference `update`: one count per whole period of RUNNING time, each consuming one timeout of credit
    let (mut r_start, mut r_count, mut r_occ) = (start, count, occurred);
    let mut consumed_ok = true;
    if !paused {
        let mut k = 0;
        while k < 6 && now - r_start >= t {
            r_start += t;
            if r_count < n {
                r_count += 1;
                if credit < t {
                    consumed_ok = false;
                } else {
                    credit -= t;
                }
            }
            r_occ = true;
            k += 1;
        }
    }
    let op: u8 = kani::any();
    kani::assume(op < 6);
    let mut r_paused = paused;
    let updates = op != 1 && op != 5;
    match op {
        0 => {
            c.verif_restart();
            r_start = now;
            r_paused = false;
            r_occ = false;
        }
        1 => {
            c.verif_reset();
            r_start = now;
            r_paused = false;
            r_occ = false;
            r_count = 0;
            credit = 0;
        }
        2 => {
            c.pause();
            r_paused = true;
        }
        3 => {
            let got = c.limit_reached();
            assert!(got == (r_count == n), "limit reached exactly when the count equals the limit");
            kani::cover!(got && count < n, "limit reached by this update");
        }
        4 => {
            let got = c.timeout_occurred();
            assert!(got == r_occ, "timeout flag");
        }
        _ => {
            let got = c.until_timeout();
            let next = start + t;
            let want = if next > now { next - now } else { 0 };
            assert!(got == Duration::from_secs(want), "time to the next expiry");
        }
    }
    let p = c.verif_parts();
    if updates || op == 1 {
        assert!(p.count == r_count && p.occurred == r_occ && p.paused == r_paused, "counter equals the reference");
        assert!(p.start_time == Duration::from_secs(r_start));
        assert!(consumed_ok, "every counted expiration consumed a full timeout of running time: paused time is never counted");
        assert!(p.paused || credit >= now - r_start, "ghost invariant re-established (inductive step)");
        assert!(p.paused || now - r_start < t || op == 1, "an updated running counter is less than one period old");
    } else {
        assert!(p.count == count && p.occurred == occurred && p.paused == paused && p.start_time == Duration::from_secs(start), "until_timeout changes nothing");
    }
    assert!(p.count <= n);
    kani::cover!(op == 0 && r_count > count, "restart counts an expiry");
    kani::cover!(op == 2 && paused, "pause of a paused counter");
    kani::cover!(r_count == count + 2, "two periods at once");
}

//# funcs=Counter::{new,start,restart,reset,update,pause,limit_reached,timeout_occurred,until_timeout}; bound=3 operations in sequence from Counter::new (may be inconclusive: > 10 min); assume=timeout >= 1 s; stubs=none
#[kani::proof]
#[kani::unwind(11)]
fn c17_t_counter_kernel_3ops() {
    let t: u64 = kani::any();
    let n: u32 = kani::any();
    kani::assume(t >= 1 && t <= (1 << 20) && n >= 1 && n <= 4);
    let mut now: u64 = kani::any();
    kani::assume(now <= (1 << 30));
    verif::set_now(Duration::from_secs(now));
    let mut c = Counter::new(Duration::from_secs(t), n);
    let mut r = Ref { t, n, start: now, count: 0, occurred: false, paused: true, run_since_reset: 0, spent: 0, last: now };
    let mut step = 0;
    while step < 3 {
        let dt: u64 = kani::any();
        kani::assume(dt <= 2 * t + t - 1);
        now += dt;
        verif::set_now(Duration::from_secs(now));
        r.tick(now);
        let op: u8 = kani::any();
        kani::assume(op < 6);
        match op {
            0 => {
                // restart: keeps the count, a fresh full period starts now
                c.verif_restart();
                r.update(now);
                r.start = now;
                r.paused = false;
                r.occurred = false;
            }
            1 => {
                // reset: clears the count
                c.verif_reset();
                r.start = now;
                r.paused = false;
                r.occurred = false;
                r.count = 0;
                r.run_since_reset = 0;
                r.spent = 0;
            }
            2 => {
                c.pause();
                r.update(now);
                r.paused = true;
            }
            3 => {
                let got = c.limit_reached();
                r.update(now);
                assert!(got == (r.count == n), "limit reached exactly when the count equals the limit");
                assert!(!got || r.spent <= r.run_since_reset, "never before limit x timeout of running time");
                kani::cover!(got, "limit reached");
            }
            4 => {
                let got = c.timeout_occurred();
                r.update(now);
                assert!(got == r.occurred, "timeout flag");
            }
            _ => {
                let got = c.until_timeout();
                let next = r.start + t;
                let want = if next > now { next - now } else { 0 };
                assert!(got == Duration::from_secs(want), "time to the next expiry");
            }
        }
        let p = c.verif_parts();
        assert!(p.count == r.count && p.paused == r.paused && p.occurred == r.occurred, "counter equals the reference");
        assert!(p.paused || p.start_time == Duration::from_secs(r.start));
        assert!(r.spent <= r.run_since_reset, "each counted expiration lasted a full timeout of running time");
        step += 1;
    }
    kani::cover!(r.count == n, "count reached the limit");
    kani::cover!(r.count > 0 && r.count < n, "partial count");
}

// ================================================================================== layer 2: handler steps
const NOW: u64 = 1000;

fn cfg_with_handler(mode: TransmissionMode, cond: Condition, with_entry: bool) -> (cfdp_core::transaction::TransactionConfig, FaultHandlerAction) {
    let mut cfg = config(mode);
    let action = if with_entry { any_action() } else { FaultHandlerAction::Cancel };
    if with_entry {
        cfg.fault_handler_override.insert(cond, action.clone());
    }
    (cfg, action)
}
/// counter whose expiry situation is symbolic: count <= max, start within 4 periods before NOW
fn sym_counter(timeout: u64, max: u32) -> (Counter, u32, u64, bool) {
    let count: u32 = kani::any();
    kani::assume(count <= max);
    let age: u64 = kani::any();
    kani::assume(age <= 4 * timeout);
    let occurred: bool = kani::any();
    // `occurred` is only ever set together with a count increment
    kani::assume(!occurred || count > 0);
    (counter(timeout, max, NOW - age, count, occurred, false), count, age, occurred)
}
fn expected_count(count: u32, age: u64, timeout: u64, max: u32) -> u32 {
    let c = count as u64 + age / timeout;
    if c > max as u64 { max } else { c as u32 }
}
/// what the configured action must have done to a receive transaction
fn check_recv_action(t: &RecvTransaction<ModelFs>, action: &FaultHandlerAction, cond: Condition, before: VRecvState) {
    assert!(verif::ind_count_kind(verif::K_FAULT) == 1, "exactly one fault indication");
    assert!(verif::ind_last_kind(verif::K_FAULT).unwrap().0 == cond as u64, "fault names the condition");
    match action {
        FaultHandlerAction::Ignore => {
            assert!(verif::recv_state(t) == TransactionState::Active && t.verif_recv_state() == before, "ignore continues");
            assert!(verif::ind_count_kind(verif::K_ABANDON) == 0 && verif::ind_count_kind(verif::K_SUSPENDED) == 0);
        }
        FaultHandlerAction::Suspend => {
            assert!(verif::recv_state(t) == TransactionState::Suspended, "suspend suspends");
            assert!(verif::ind_count_kind(verif::K_SUSPENDED) == 1 && t.verif_recv_state() == before);
        }
        FaultHandlerAction::Abandon => {
            assert!(verif::recv_state(t) == TransactionState::Terminated, "abandon stops at once");
            assert!(verif::ind_count_kind(verif::K_ABANDON) == 1);
        }
        FaultHandlerAction::Cancel => {
            assert!(t.verif_recv_state() == VRecvState::Cancelled, "cancel (also the default)");
            assert!(t.verif_condition() == cond);
            match t.verif_finished() {
                Some((f, true)) => assert!(f.condition == cond, "Finished(cancel) armed with the fault condition"),
                _ => assert!(false, "Finished not armed after cancel"),
            }
        }
    }
}

fn recv_ack_limit(with_entry: bool) {
    let ch = chans();
    verif::set_now(Duration::from_secs(NOW));
    let (cfg, action) = cfg_with_handler(TransmissionMode::Acknowledged, Condition::PositiveLimitReached, with_entry);
    let max = cfg.max_count;
    let mut p = recv_parts(cfg, NakProcedure::Deferred(Duration::ZERO), &ch);
    p.metadata = Some(metadata(false, 0, false, ChecksumType::Modular, vec![]));
    p.recv_state = VRecvState::Finished;
    p.delivery_code = DeliveryCode::Complete;
    p.file_size = Some(0);
    p.checksum = Some(0);
    let flag: bool = kani::any();
    p.finished = Some((
        Finished {
            condition: Condition::NoError,
            delivery_code: DeliveryCode::Complete,
            file_status: FileStatusCode::Unreported,
            filestore_response: vec![],
            fault_location: None,
        },
        flag,
    ));
    let (c, count, age, occurred) = sym_counter(3, max);
    p.timer.ack = c;
    p.timer.inactivity = counter(10, max, NOW, 0, false, false);
    let mut t = RecvTransaction::verif_from_parts(p);
    t.handle_timeout().unwrap();
    let want = expected_count(count, age, 3, max);
    if want == max {
        check_recv_action(&t, &action, Condition::PositiveLimitReached, VRecvState::Finished);
        kani::cover!(age < 3, "limit already counted");
        kani::cover!(age >= 3, "limit reached by this expiry");
    } else {
        assert!(verif::ind_count() == 0, "no fault before the configured number of expirations");
        assert!(verif::recv_state(&t) == TransactionState::Active && t.verif_recv_state() == VRecvState::Finished);
        let armed = matches!(t.verif_finished(), Some((_, true)));
        if age >= 3 || occurred {
            assert!(armed, "expiry arms exactly one Finished retransmission");
            let tp = t.verif_timer().ack.verif_parts();
            assert!(tp.count == want && !tp.paused && tp.start_time == Duration::from_secs(NOW), "timer restarted, count kept");
            kani::cover!(true, "retransmitted");
        } else {
            assert!(armed == flag, "nothing happens before the timeout");
        }
    }
    forget(t);
    forget(ch);
}
//# funcs=RecvTransaction::handle_timeout,handle_fault,_cancel,suspend,abandon,send_finished,Counter::*; bound=phase Finished, ack count 0..=limit(2), age <= 4 timeouts, handler for PositiveLimitReached symbolic over 4 actions; stubs=S1,S2,S3
th!(c17_q_recv_ack_limit_handler, 8, { recv_ack_limit(true) });
//# funcs=RecvTransaction::handle_timeout,handle_fault; bound=as above with an empty handler map (default = cancel); stubs=S1,S2,S3
th!(c17_q_recv_ack_limit_default, 8, { recv_ack_limit(false) });

fn recv_inactivity(with_entry: bool, phase: VRecvState) {
    let ch = chans();
    verif::set_now(Duration::from_secs(NOW));
    let (cfg, action) = cfg_with_handler(TransmissionMode::Acknowledged, Condition::InactivityDetected, with_entry);
    let max = cfg.max_count;
    let mut p = recv_parts(cfg, NakProcedure::Deferred(Duration::ZERO), &ch);
    p.recv_state = phase;
    if phase != VRecvState::ReceiveData {
        p.finished = Some((
            Finished {
                condition: Condition::CancelReceived,
                delivery_code: DeliveryCode::Incomplete,
                file_status: FileStatusCode::Unreported,
                filestore_response: vec![],
                fault_location: None,
            },
            false,
        ));
        p.condition = Condition::CancelReceived;
        p.timer.ack = counter(3, max, NOW, 0, false, false);
    }
    let (c, count, age, occurred) = sym_counter(10, max);
    p.timer.inactivity = c;
    let mut t = RecvTransaction::verif_from_parts(p);
    t.handle_timeout().unwrap();
    let want = expected_count(count, age, 10, max);
    if want == max {
        if phase == VRecvState::Cancelled {
            assert!(verif::recv_state(&t) == TransactionState::Terminated && verif::ind_count_kind(verif::K_ABANDON) == 1, "cancelled + inactivity limit: abandon");
        } else {
            check_recv_action(&t, &action, Condition::InactivityDetected, phase);
        }
        kani::cover!(true, "limit");
    } else {
        assert!(verif::ind_count() == 0, "no fault before the configured number of expirations");
        assert!(verif::recv_state(&t) == TransactionState::Active && t.verif_recv_state() == phase);
        let tp = t.verif_timer().inactivity.verif_parts();
        assert!(tp.count == want, "count kept");
        if age >= 10 || occurred {
            assert!(!tp.paused && tp.start_time == Duration::from_secs(NOW) && !tp.occurred, "timer restarted");
        }
    }
    forget(t);
    forget(ch);
}
//# funcs=RecvTransaction::handle_timeout,handle_fault,_cancel,suspend,abandon; bound=phase ReceiveData, inactivity count 0..=2, age <= 4 timeouts, handler symbolic; stubs=S1,S2,S3
th!(c17_q_recv_inactivity_handler, 8, { recv_inactivity(true, VRecvState::ReceiveData) });
//# funcs=RecvTransaction::handle_timeout,handle_fault; bound=phase ReceiveData, empty handler map; stubs=S1,S2,S3
th!(c17_t_recv_inactivity_default, 8, { recv_inactivity(false, VRecvState::ReceiveData) });
//# funcs=RecvTransaction::handle_timeout,abandon; bound=phase Cancelled; stubs=S1,S2,S3
th!(c17_t_recv_inactivity_cancelled, 8, { recv_inactivity(true, VRecvState::Cancelled) });

fn recv_nak_limit(with_entry: bool, progress: bool, at_limit: bool, concrete: bool) {
    let ch = chans();
    verif::set_now(Duration::from_secs(NOW));
    let (cfg, action) = cfg_with_handler(TransmissionMode::Acknowledged, Condition::NakLimitReached, with_entry);
    let max = cfg.max_count;
    let mut p = recv_parts(cfg, NakProcedure::Deferred(Duration::ZERO), &ch);
    // EOF received for a 10-byte file, bytes [0,4) held, metadata present: one gap (4,10) queued
    p.metadata = Some(metadata(true, 10, false, ChecksumType::Modular, vec![]));
    p.file_size = Some(10);
    p.checksum = Some(0);
    p.saved_segments.merge((0, 4));
    p.received_file_size = 4;
    p.nak_received_file_size = if progress { 2 } else { 4 };
    p.naks.push_back(SegmentRequestForm { start_offset: 4, end_offset: 10 });
    let (c, count, age, _occ) = if concrete {
        // running, one expiry already counted, not expired again
        (counter(5, max, NOW - 1, 1, false, false), 1, 1, false)
    } else {
        sym_counter(5, max)
    };
    p.timer.nak = c;
    p.timer.inactivity = counter(10, max, NOW, 0, false, false);
    let want = expected_count(count, age, 5, max);
    // the control flow of the step is fixed per harness instance (limit reached or not); values stay symbolic
    kani::assume((want == max) == at_limit);
    let mut t = RecvTransaction::verif_from_parts(p);
    let pdu = recv_send(&mut t, &ch);
    if !progress && want == max {
        check_recv_action(&t, &action, Condition::NakLimitReached, VRecvState::ReceiveData);
        if action != FaultHandlerAction::Ignore {
            assert!(pdu.is_none(), "no NAK once the fault is declared");
        }
        kani::cover!(true, "limit");
    } else {
        assert!(verif::ind_count() == 0, "no fault before the configured number of expirations / after progress");
        match &pdu {
            Some((_, PDU { payload: PDUPayload::Directive(Operations::Nak(n)), .. })) => {
                assert!(n.segment_requests.len() == 1 && n.segment_requests[0].start_offset == 4 && n.segment_requests[0].end_offset == 10)
            }
            _ => assert!(false, "NAK expected"),
        }
        forget(pdu);
        let tp = t.verif_timer().nak.verif_parts();
        assert!(!tp.paused && tp.start_time == Duration::from_secs(NOW));
        if progress {
            assert!(tp.count == 0, "progress resets the count");
            assert!(t.verif_nak_received_file_size() == 4);
        } else {
            assert!(tp.count == want, "restart keeps the count");
        }
        kani::cover!(progress, "progress");
        kani::cover!(!progress, "no progress");
    }
    forget(t);
    forget(ch);
}
//# funcs=RecvTransaction::send_pdu,send_naks,Counter::reset; bound=after EOF, one queued gap, new data since the last NAK: NAK sent, count reset; nak count/age symbolic; stubs=S1,S2,S3; nocover=limit|no progress
th!(c17_q_recv_nak_progress_resets, 8, {
    if kani::any() {
        recv_nak_limit(false, true, true, false)
    } else {
        recv_nak_limit(false, true, false, false)
    }
});
//# funcs=RecvTransaction::send_pdu,send_naks,Counter::restart; bound=no progress, count 1 of 2, timer not expired again (concrete counter): NAK sent, timer restarted with the count kept; stubs=S1,S2,S3; nocover=limit|progress
th!(c17_q_recv_nak_below_limit, 8, { recv_nak_limit(false, false, false, true) });
//# funcs=RecvTransaction::send_pdu,send_naks,Counter::restart; bound=as above with symbolic count/age below the limit (the fault path that drops the transport permit is explored: slow); stubs=S1,S2,S3
th!(c17_x_recv_nak_below_limit_symbolic, 8, { recv_nak_limit(false, false, false, false) });
//# funcs=RecvTransaction::send_pdu,send_naks,handle_fault; bound=no progress, count at the limit, handler symbolic over 4 actions (the early return drops the transport permit: slow); stubs=S1,S2,S3
th!(c17_x_recv_nak_limit_handler, 8, { recv_nak_limit(true, false, true, false) });
//# funcs=RecvTransaction::send_pdu,send_naks,handle_fault; bound=as above, empty handler map; stubs=S1,S2,S3
th!(c17_x_recv_nak_limit_default, 8, { recv_nak_limit(false, false, true, false) });

/// the retransmission itself: from the state the timeout handler leaves (flag armed), exactly one PDU goes out
fn recv_retransmit_finished() {
    let ch = chans();
    verif::set_now(Duration::from_secs(NOW));
    let mut p = recv_parts(config(TransmissionMode::Acknowledged), NakProcedure::Deferred(Duration::ZERO), &ch);
    p.metadata = Some(metadata(false, 0, false, ChecksumType::Modular, vec![]));
    p.recv_state = VRecvState::Finished;
    p.delivery_code = DeliveryCode::Complete;
    p.file_size = Some(0);
    p.finished = Some((
        Finished { condition: Condition::NoError, delivery_code: DeliveryCode::Complete, file_status: FileStatusCode::Unreported, filestore_response: vec![], fault_location: None },
        true,
    ));
    let count: u32 = kani::any();
    kani::assume(count < 2);
    p.timer.ack = counter(3, 2, NOW, count, false, false);
    let mut t = RecvTransaction::verif_from_parts(p);
    assert!(verif::recv_has_pdu_to_send(&t));
    let pdu = recv_send(&mut t, &ch);
    match &pdu {
        Some((_, PDU { payload: PDUPayload::Directive(Operations::Finished(f)), .. })) => assert!(f.condition == Condition::NoError && f.delivery_code == DeliveryCode::Complete),
        _ => assert!(false, "Finished PDU expected"),
    }
    forget(pdu);
    assert!(!verif::recv_has_pdu_to_send(&t), "exactly one retransmission per expiration");
    let tp = t.verif_timer().ack.verif_parts();
    assert!(tp.count == count && !tp.paused && tp.start_time == Duration::from_secs(NOW), "ACK timer restarted, count kept");
    kani::cover!(count == 1, "second transmission");
    forget(t);
    forget(ch);
}
//# funcs=RecvTransaction::send_pdu(Finished),send_finished,Counter::restart; bound=Finished armed, ack count 0..1; stubs=S1,S2,S3
th!(c17_q_recv_retransmit_finished, 8, { recv_retransmit_finished() });

fn send_retransmit_eof() {
    let ch = chans();
    verif::set_now(Duration::from_secs(NOW));
    let mut p = send_parts(config(TransmissionMode::Acknowledged), metadata(false, 0, false, ChecksumType::Modular, vec![]), &ch);
    p.send_state = VSendState::SendEof;
    p.checksum = Some(0);
    p.send_eof_indication = false;
    p.eof = Some((EndOfFile { condition: Condition::NoError, checksum: 0, file_size: 0, fault_location: None }, true));
    let count: u32 = kani::any();
    kani::assume(count < 2);
    p.timer.ack = counter(3, 2, NOW - 3, count, true, false);
    let mut t = SendTransaction::verif_from_parts(p);
    let pdu = send_send(&mut t, &ch);
    match &pdu {
        Some((_, PDU { payload: PDUPayload::Directive(Operations::EoF(e)), .. })) => assert!(e.condition == Condition::NoError),
        _ => assert!(false, "EOF PDU expected"),
    }
    forget(pdu);
    assert!(!verif::send_has_pdu_to_send(&t), "exactly one retransmission per expiration");
    let tp = t.verif_timer().ack.verif_parts();
    assert!(!tp.paused && tp.start_time == Duration::from_secs(NOW) && !tp.occurred, "ACK timer restarted");
    assert!(tp.count == count + 1 || tp.count == 2, "the expiry that caused the retransmission is counted once");
    assert!(verif::ind_count() == 0);
    kani::cover!(true, "end");
    forget(t);
    forget(ch);
}
//# funcs=SendTransaction::send_pdu(SendEof),send_eof,Counter::restart; bound=EOF armed after an expiry, ack count 0..1; stubs=S1,S2,S3
th!(c17_q_send_retransmit_eof, 8, { send_retransmit_eof() });

fn check_send_action(t: &SendTransaction<ModelFs>, action: &FaultHandlerAction, cond: Condition, before: VSendState) {
    assert!(verif::ind_count_kind(verif::K_FAULT) >= 1, "fault indication");
    assert!(verif::ind_last_kind(verif::K_FAULT).unwrap().0 == cond as u64, "fault names the condition");
    match action {
        FaultHandlerAction::Ignore => {
            assert!(verif::send_state(t) == TransactionState::Active && t.verif_send_state() == before, "ignore continues");
        }
        FaultHandlerAction::Suspend => {
            assert!(verif::send_state(t) == TransactionState::Suspended && t.verif_send_state() == before, "suspend suspends");
        }
        FaultHandlerAction::Abandon => {
            assert!(verif::send_state(t) == TransactionState::Terminated && verif::ind_count_kind(verif::K_ABANDON) == 1, "abandon stops at once");
        }
        FaultHandlerAction::Cancel => {
            assert!(t.verif_send_state() == VSendState::Cancelled && t.verif_condition() == cond, "cancel (also the default)");
            match t.verif_eof() {
                Some((e, true)) => assert!(e.condition == cond && e.fault_location == Some(VariableID::from(SRC_ID)), "EOF(cancel) armed"),
                _ => assert!(false, "EOF not armed after cancel"),
            }
        }
    }
}
fn send_ack_limit(with_entry: bool) {
    let ch = chans();
    verif::set_now(Duration::from_secs(NOW));
    let (cfg, action) = cfg_with_handler(TransmissionMode::Acknowledged, Condition::PositiveLimitReached, with_entry);
    let max = cfg.max_count;
    let mut p = send_parts(cfg, metadata(false, 0, false, ChecksumType::Modular, vec![]), &ch);
    p.send_state = VSendState::SendEof;
    p.checksum = Some(0);
    let flag: bool = kani::any();
    p.eof = Some((EndOfFile { condition: Condition::NoError, checksum: 0, file_size: 0, fault_location: None }, flag));
    let (c, count, age, occurred) = sym_counter(3, max);
    p.timer.ack = c;
    p.timer.inactivity = counter(10, max, NOW, 0, false, false);
    let mut t = SendTransaction::verif_from_parts(p);
    t.handle_timeout().unwrap();
    let want = expected_count(count, age, 3, max);
    let expired = age >= 3 || occurred;
    if expired && want == max {
        check_send_action(&t, &action, Condition::PositiveLimitReached, VSendState::SendEof);
        kani::cover!(true, "limit");
    } else if expired {
        assert!(verif::ind_count() == 0, "no fault before the configured number of expirations");
        assert!(matches!(t.verif_eof(), Some((_, true))), "expiry arms exactly one EOF retransmission");
        assert!(t.verif_timer().ack.verif_parts().count == want, "count kept");
        kani::cover!(true, "retransmitted");
    } else {
        assert!(verif::ind_count() == 0);
        assert!(matches!(t.verif_eof(), Some((_, f)) if *f == flag), "nothing happens before the timeout");
    }
    forget(t);
    forget(ch);
}
//# funcs=SendTransaction::handle_timeout,handle_fault,_cancel,suspend,abandon,send_eof,Counter::*; bound=phase SendEof, ack count 0..=2, age <= 4 timeouts, handler symbolic; stubs=S1,S2,S3
th!(c17_q_send_ack_limit_handler, 8, { send_ack_limit(true) });
//# funcs=SendTransaction::handle_timeout,handle_fault; bound=as above, empty handler map; stubs=S1,S2,S3
th!(c17_t_send_ack_limit_default, 8, { send_ack_limit(false) });
