//! C01 — a file reported as delivered is byte-identical to the source (receiver-side finalisation obligation).
//! One step of the receiver reaching finalisation from a constructed state: IF the step reports (NoError, Complete,
//! Retained) THEN every byte of [0,size) is held, the staged bytes have the EOF checksum and the destination file
//! equals the staged bytes. That the staged bytes equal the SOURCE needs C07 (sender), C09 and an uncorrupted link
//! (or C15) and is argued, not solver-checked.
use crate::env::*;
use cfdp_core::{daemon::NakProcedure, filestore::ChecksumType, pdu::*, transaction::TransactionState};
use cfdp_daemon::{transaction::RecvTransaction, verif::{self, VRecvState}};
use std::{mem::forget, time::Duration};

const NOW: u64 = 1000;
const CLEAN: u64 = ((Condition::NoError as u64) << 8) | ((DeliveryCode::Complete as u64) << 4) | FileStatusCode::Retained as u64;

fn finalise_step(mode: TransmissionMode, n: usize, k: usize, via: u8) {
    let ch = chans();
    link_libc();
    verif::set_now(Duration::from_secs(NOW));
    let mut p = recv_parts(config(mode), NakProcedure::Deferred(Duration::ZERO), &ch);
    let cks = if kani::any() { ChecksumType::Modular } else { ChecksumType::Null };
    let content: [u8; CAP] = kani::any();
    let (s, b) = any_segments(k, n as u64);
    let end = if k > 0 { b[2 * k - 1] as usize } else { 0 };
    // the staged file: what was written so far (holes read as zero bytes: the content array is arbitrary there,
    // which over-approximates a sparse file)
    if k > 0 {
        set_file(TMP, &content[..end]);
        unsafe { TEMPS = 1 };
        p.file_handle = Some(handle(TMP));
    }
    let mut held = 0;
    let mut i = 0;
    while i < k {
        held += b[2 * i + 1] - b[2 * i];
        i += 1;
    }
    p.saved_segments = s;
    p.received_file_size = held;
    p.nak_received_file_size = held;
    p.timer.inactivity = counter(10, 2, NOW - 1, 0, false, false);
    let eof_cks: u32 = kani::any();
    let md = metadata(true, n as u64, false, cks, vec![]);
    let eof = EndOfFile { condition: Condition::NoError, checksum: eof_cks, file_size: n as u64, fault_location: None };
    let mut t;
    if via == 0 {
        // EOF arrives last
        p.metadata = Some(md);
        t = RecvTransaction::verif_from_parts(p);
        let r = t.process_pdu(directive(mode, Direction::ToReceiver, Operations::EoF(eof)));
        forget(r);
    } else {
        // EOF already received, metadata arrives last (acknowledged mode only)
        p.file_size = Some(n as u64);
        p.checksum = Some(eof_cks);
        p.timer.nak = counter(5, 2, NOW - 1, 0, false, false);
        t = RecvTransaction::verif_from_parts(p);
        let r = t.process_pdu(directive(
            mode,
            Direction::ToReceiver,
            Operations::Metadata(MetadataPDU {
                closure_requested: false,
                checksum_type: cks,
                file_size: n as u64,
                source_filename: "s".into(),
                destination_filename: "d".into(),
                options: vec![],
            }),
        ));
        forget(r);
    }
    let reported_clean = verif::ind_last_kind(verif::K_FINISHED).map_or(false, |(c, _)| c == CLEAN);
    let all_held = n == 0 || (k == 1 && b[0] == 0 && b[1] == n as u64);
    if reported_clean {
        assert!(all_held, "reported complete only when every byte of [0,size) is held");
        if cks == ChecksumType::Modular {
            assert!(eof_cks == ref_checksum(TMP, n), "reported complete only when the staged bytes have the EOF checksum");
        }
        assert!(file_len(DST) == n, "destination has the announced length");
        let mut j = 0;
        while j < n {
            assert!(file_byte(DST, j) == file_byte(TMP, j), "destination equals the staged bytes");
            j += 1;
        }
        assert!(opens(DST) == 1, "written once");
    } else if opens(DST) > 0 {
        // a file may only appear under the destination name together with a non-clean report when the user asked
        // for checksum failures to be ignored (not configured here)
        assert!(false, "file exposed under the destination name without a clean delivery report");
    }
    kani::cover!(reported_clean, "clean delivery");
    kani::cover!(!reported_clean && all_held, "complete but checksum mismatch");
    kani::cover!(!all_held, "incomplete");
    forget(t);
    forget(ch);
}
//# funcs=RecvTransaction::process_pdu(EoF),check_file_size,check_finished,has_naks,Segments::is_complete,finalize_receive,verify_checksum,FileChecksum::checksum,finalize_file; bound=acknowledged mode, 4-byte file, 1 held segment (any sub-range), staged content + EOF checksum symbolic, Modular/Null; stubs=S1,S2,S3,S5
th!(c01_q_finalise_ack_eof_last, 14, { finalise_step(TransmissionMode::Acknowledged, 4, 1, 0) });
//# funcs=RecvTransaction::process_pdu(Metadata),check_finished,finalize_receive,verify_checksum,finalize_file; bound=acknowledged mode, metadata arrives after EOF, 4-byte file, 1 held segment; stubs=S1,S2,S3,S5
th!(c01_q_finalise_ack_metadata_last, 14, { finalise_step(TransmissionMode::Acknowledged, 4, 1, 1) });
//# funcs=RecvTransaction::process_pdu(EoF) unacknowledged,finalize_receive,verify_checksum,finalize_file; bound=unacknowledged mode, 4-byte file, 1 held segment; stubs=S1,S2,S3,S5
th!(c01_q_finalise_unack, 14, { finalise_step(TransmissionMode::Unacknowledged, 4, 1, 0) });
//# funcs=RecvTransaction::process_pdu(EoF),check_finished,finalize_receive; bound=acknowledged mode, 5-byte file (length not a multiple of 4), 1 held segment; stubs=S1,S2,S3,S5
th!(c01_t_finalise_ack_len5, 14, { finalise_step(TransmissionMode::Acknowledged, 5, 1, 0) });
//# funcs=RecvTransaction::process_pdu(EoF),check_finished,finalize_receive; bound=acknowledged mode, 6-byte file, 2 held segments; stubs=S1,S2,S3,S5
th!(c01_t_finalise_ack_k2, 14, { finalise_step(TransmissionMode::Acknowledged, 6, 2, 0) });
