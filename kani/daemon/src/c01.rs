//! C01 — a file reported as delivered is byte-identical to the source (receiver-side finalisation obligation).
//! One step of the receiver reaching finalisation from a constructed state: IF the step reports (NoError, Complete,
//! Retained) THEN every byte of [0,size) is held, the staged bytes have the EOF checksum and the destination file
//! equals the staged bytes. That the staged bytes equal the SOURCE needs C07 (sender), C09 and an uncorrupted link
//! (or C15) and is argued, not solver-checked.
use crate::env::*;
use cfdp_core::{daemon::NakProcedure, filestore::ChecksumType, pdu::*, transaction::TransactionState};
use cfdp_daemon::{transaction::RecvTransaction, verif::{self, VRecvState}};
use std::{mem::forget, time::Duration};

const NOW: u64 = 1000;
const CLEAN: u64 = ((Condition::NoError as u64) << 8) | ((DeliveryCode::Complete as u64) << 4) | FileStatusCode::Retained as u64;

fn finalise_step(mode: TransmissionMode, shape: u8, via: u8) {
    let n = 4usize;
    let ch = chans();
    link_libc();
    verif::set_now(Duration::from_secs(NOW));
    let mut p = recv_parts(config(mode), NakProcedure::Deferred(Duration::ZERO), &ch);
    let cks = if kani::any() { ChecksumType::Modular } else { ChecksumType::Null };
    let (b, k) = stage_shape(&mut p, shape);
    // a longer, unrelated file already exists under the destination name (a stale file must not survive delivery)
    let stale: [u8; CAP] = kani::any();
    set_file(DST, &stale[..6]);
    p.timer.inactivity = counter(10, 2, NOW - 1, 0, false, false);
    let eof_cks: u32 = kani::any();
    let md = metadata(true, n as u64, false, cks, vec![]);
    let eof = EndOfFile { condition: Condition::NoError, checksum: eof_cks, file_size: n as u64, fault_location: None };
    let mut t;
    if via == 0 {
        // EOF arrives last
        p.metadata = Some(md);
        t = RecvTransaction::verif_from_parts(p);
        let r = t.process_pdu(directive(mode, Direction::ToReceiver, Operations::EoF(eof)));
        forget(r);
    } else {
        // EOF already received, metadata arrives last (acknowledged mode only)
        p.file_size = Some(n as u64);
        p.checksum = Some(eof_cks);
        p.timer.nak = counter(5, 2, NOW - 1, 0, false, false);
        t = RecvTransaction::verif_from_parts(p);
        let r = t.process_pdu(directive(
            mode,
            Direction::ToReceiver,
            Operations::Metadata(MetadataPDU {
                closure_requested: false,
                checksum_type: cks,
                file_size: n as u64,
                source_filename: "s".into(),
                destination_filename: "d".into(),
                options: vec![],
            }),
        ));
        forget(r);
    }
    let reported_clean = verif::ind_last_kind(verif::K_FINISHED).map_or(false, |(c, _)| c == CLEAN);
    let all_held = n == 0 || (k == 1 && b[0] == 0 && b[1] == n as u64);
    if reported_clean {
        assert!(all_held, "reported complete only when every byte of [0,size) is held");
        if cks == ChecksumType::Modular {
            assert!(eof_cks == ref_checksum(TMP, n), "reported complete only when the staged bytes have the EOF checksum");
        }
        assert!(file_len(DST) == n, "destination has the announced length");
        let mut j = 0;
        while j < n {
            assert!(file_byte(DST, j) == file_byte(TMP, j), "destination equals the staged bytes");
            j += 1;
        }
        assert!(opens(DST) == 1, "written once");
    } else if opens(DST) > 0 || writes(DST) > 0 {
        // a file may only appear under the destination name together with a non-clean report when the user asked
        // for checksum failures to be ignored (not configured here)
        assert!(false, "file exposed under the destination name without a clean delivery report");
    }
    kani::cover!(reported_clean, "clean delivery");
    kani::cover!(!reported_clean && all_held, "complete but checksum mismatch");
    kani::cover!(!all_held, "incomplete");
    forget(t);
    forget(ch);
}
//# funcs=RecvTransaction::process_pdu(EoF),check_file_size,check_finished,has_naks,Segments::is_complete,finalize_receive,verify_checksum,FileChecksum::checksum,finalize_file; bound=acknowledged mode, 4-byte file completely held, staged content + EOF checksum symbolic, Modular/Null; stubs=S1,S2,S3,S5; nocover=incomplete
th!(c01_q_finalise_ack_complete, 14, { finalise_step(TransmissionMode::Acknowledged, 1, 0) });
//# funcs=RecvTransaction::process_pdu(EoF),check_finished,has_naks,Segments::is_complete; bound=acknowledged mode, head missing (held (2,4)); stubs=S1,S2,S3,S5; nocover=clean delivery|complete but checksum mismatch
th!(c01_q_finalise_ack_head_missing, 14, { finalise_step(TransmissionMode::Acknowledged, 3, 0) });
//# funcs=RecvTransaction::process_pdu(EoF),check_finished,has_naks; bound=acknowledged mode, tail missing (held (0,2)); stubs=S1,S2,S3,S5; nocover=clean delivery|complete but checksum mismatch
th!(c01_q_finalise_ack_tail_missing, 14, { finalise_step(TransmissionMode::Acknowledged, 2, 0) });
//# funcs=RecvTransaction::process_pdu(EoF),check_finished,has_naks; bound=acknowledged mode, nothing held; stubs=S1,S2,S3,S5; nocover=clean delivery|complete but checksum mismatch
th!(c01_q_finalise_ack_nothing_held, 14, { finalise_step(TransmissionMode::Acknowledged, 0, 0) });
//# funcs=RecvTransaction::process_pdu(EoF),check_finished,has_naks; bound=acknowledged mode, middle held (1,3); stubs=S1,S2,S3,S5; nocover=clean delivery|complete but checksum mismatch
th!(c01_t_finalise_ack_middle_held, 14, { finalise_step(TransmissionMode::Acknowledged, 4, 0) });
//# funcs=RecvTransaction::process_pdu(EoF),check_finished,has_naks; bound=acknowledged mode, two segments (0,1),(3,4) held; stubs=S1,S2,S3,S5; nocover=clean delivery|complete but checksum mismatch
th!(c01_t_finalise_ack_two_segments, 14, { finalise_step(TransmissionMode::Acknowledged, 5, 0) });
//# funcs=RecvTransaction::process_pdu(Metadata),check_finished,finalize_receive,verify_checksum,finalize_file; bound=acknowledged mode, metadata arrives after EOF, file completely held; stubs=S1,S2,S3,S5
th!(c01_x_finalise_ack_metadata_last, 14, { finalise_step(TransmissionMode::Acknowledged, 1, 1) });
//# funcs=RecvTransaction::process_pdu(EoF) unacknowledged,finalize_receive,verify_checksum,finalize_file; bound=unacknowledged mode, file completely held; stubs=S1,S2,S3,S5; nocover=incomplete
th!(c01_q_finalise_unack_complete, 14, { finalise_step(TransmissionMode::Unacknowledged, 1, 0) });
//# funcs=RecvTransaction::process_pdu(EoF) unacknowledged,finalize_receive; bound=unacknowledged mode, head missing (held (2,4)); stubs=S1,S2,S3,S5; nocover=clean delivery|complete but checksum mismatch
th!(c01_q_finalise_unack_head_missing, 14, { finalise_step(TransmissionMode::Unacknowledged, 3, 0) });
//# funcs=RecvTransaction::process_pdu(Metadata),check_finished; bound=acknowledged mode, metadata last, head missing; stubs=S1,S2,S3,S5
th!(c01_x_finalise_ack_metadata_last_head_missing, 14, { finalise_step(TransmissionMode::Acknowledged, 3, 1) });

//# funcs=RecvTransaction::process_pdu(FileData),store_file_data,get_handle; bound=acknowledged mode, nothing held, 2 bytes (any values, incl. zeros) at offset 0..=2 of a 4-byte file: the staging file holds exactly those bytes at that offset and extends to their end; stubs=S1,S2,S3,S5
th!(c01_q_store_file_data, 10, {
    let ch = chans();
    link_libc();
    verif::set_now(Duration::from_secs(NOW));
    let mut p = recv_parts(config(TransmissionMode::Acknowledged), NakProcedure::Deferred(Duration::ZERO), &ch);
    p.metadata = Some(metadata(true, 4, false, ChecksumType::Modular, vec![]));
    p.timer.inactivity = counter(10, 2, NOW, 0, false, false);
    let mut t = RecvTransaction::verif_from_parts(p);
    let off: u64 = kani::any();
    kani::assume(off <= 2);
    let d: [u8; 2] = kani::any();
    t.process_pdu(filedata(TransmissionMode::Acknowledged, off, d.to_vec())).unwrap();
    let o = off as usize;
    assert!(file_len(TMP) == o + 2, "the staging file extends to the end of the received data");
    assert!(file_byte(TMP, o) == d[0] && file_byte(TMP, o + 1) == d[1], "the staged bytes are the received bytes, at their offset");
    kani::cover!(d[0] == 0 && d[1] == 0, "all-zero segment");
    kani::cover!(off == 2 && d[1] != 0, "tail of the file");
    forget(t);
    forget(ch);
});
