//! C03 — every transaction ends in bounded time (local progress obligations at each entity, one step each).
//! After any single step from a reachable phase-entry state the transaction is (i) ENABLED: terminated, or has a PDU
//! to send, or a running timer will wake it; (ii) NOT SPINNING: after `handle_timeout` the next wake-up is in the
//! future unless there is something to send. The numeric bound and select! fairness are argued, not solver-checked.
use crate::env::*;
use cfdp_core::{daemon::NakProcedure, filestore::ChecksumType, pdu::*, transaction::TransactionState};
use cfdp_daemon::{
    transaction::{RecvTransaction, SendTransaction},
    verif::{self, VRecvState, VSendState},
};
use std::{mem::forget, time::Duration};

const NOW: u64 = 1000;
const A: TransmissionMode = TransmissionMode::Acknowledged;

fn send_enabled(t: &SendTransaction<ModelFs>) -> bool {
    verif::send_state(t) == TransactionState::Terminated
        || verif::send_has_pdu_to_send(t)
        || verif::send_until_timeout(t) < Duration::MAX
}
fn recv_enabled(t: &RecvTransaction<ModelFs>) -> bool {
    verif::recv_state(t) == TransactionState::Terminated
        || verif::recv_has_pdu_to_send(t)
        || verif::recv_until_timeout(t) < Duration::MAX
}

/// sender that has just transmitted its EOF (normal or cancel) through the real `send_pdu`
fn sender_after_eof(cancelled: bool, ch: &Chans) -> SendTransaction<ModelFs> {
    sender_after_eof_c(cancelled, 0, ch)
}
/// `ack_count`: expirations already counted on the ACK timer (2 = the limit: the cancel came from the limit fault)
fn sender_after_eof_c(cancelled: bool, ack_count: u32, ch: &Chans) -> SendTransaction<ModelFs> {
    verif::set_now(Duration::from_secs(NOW));
    let mut p = send_parts(config(A), metadata(false, 0, false, ChecksumType::Modular, vec![]), ch);
    p.checksum = Some(0);
    if cancelled {
        // as left by cancel(): inactivity paused, EOF(cancel) armed
        p.send_state = VSendState::Cancelled;
        p.condition = Condition::CancelReceived;
        p.eof = Some((EndOfFile { condition: Condition::CancelReceived, checksum: 0, file_size: 0, fault_location: Some(VariableID::from(SRC_ID)) }, true));
        if ack_count > 0 {
            // as left by the limit fault: counted to the limit at this very tick, flag still set, running
            p.timer.ack = counter(3, 2, NOW, ack_count, true, false);
        }
    } else {
        p.send_state = VSendState::SendEof;
        p.eof = Some((EndOfFile { condition: Condition::NoError, checksum: 0, file_size: 0, fault_location: None }, true));
    }
    let mut t = SendTransaction::verif_from_parts(p);
    let pdu = send_send(&mut t, ch);
    assert!(pdu.is_some());
    forget(pdu);
    t
}
fn ack_eof(cond: Condition) -> PDU {
    directive(A, Direction::ToSender, Operations::Ack(PositiveAcknowledgePDU {
        directive: PDUDirective::EoF,
        directive_subtype_code: ACKSubDirective::Other,
        condition: cond,
        transaction_status: TransactionStatus::Active,
    }))
}
fn send_step(cancelled: bool, with_pdus: bool) {
    let ch = chans();
    let mut t = sender_after_eof(cancelled, &ch);
    assert!(send_enabled(&t), "after EOF the ACK timer guards the wait");
    // ★ every by-value `process_pdu` on the acknowledged-mode sender makes CBMC execute the NAK arm on garbage
    // (DESIGN 2.3 rule 7): the PDU steps are thorough-tier only
    let step: u8 = if with_pdus { kani::any() } else { 1 };
    kani::assume(step < 3);
    let dt: u64 = kani::any();
    kani::assume(dt <= 7);
    verif::set_now(Duration::from_secs(NOW + dt));
    match step {
        0 => {
            let r = t.process_pdu(ack_eof(if cancelled { Condition::CancelReceived } else { Condition::NoError }));
            forget(r);
        }
        1 => {
            t.handle_timeout().unwrap();
            assert!(
                verif::send_state(&t) == TransactionState::Terminated
                    || verif::send_has_pdu_to_send(&t)
                    || verif::send_until_timeout(&t) > Duration::ZERO,
                "no spin: after the timeout handler the next wake-up lies in the future"
            );
        }
        _ => {
            let r = t.process_pdu(directive(A, Direction::ToSender, Operations::KeepAlive(KeepAlivePDU { progress: 0 })));
            forget(r);
        }
    }
    assert!(send_enabled(&t), "the transaction can still be woken: terminated, something to send, or a timer running");
    kani::cover!(step == 0, "ACK(EOF) received");
    kani::cover!(step == 1 && dt >= 6, "two expiries");
    forget(t);
    forget(ch);
}
//# funcs=SendTransaction::send_pdu(SendEof),handle_timeout,handle_fault,has_pdu_to_send,until_timeout; bound=sender after its EOF was sent; a timeout tick at +0..7 s; stubs=S1,S2,S3; nocover=ACK(EOF) received
th!(c03_q_send_after_eof_timeout, 10, { send_step(false, false) });
//# funcs=SendTransaction::send_pdu(Cancelled),handle_timeout,abandon,has_pdu_to_send,until_timeout; bound=cancelled sender after EOF(cancel) was sent; a timeout tick at +0..7 s; stubs=S1,S2,S3; nocover=ACK(EOF) received
th!(c03_q_send_after_cancel_eof_timeout, 10, { send_step(true, false) });
//# funcs=SendTransaction::process_pdu(Ack|KeepAlive),handle_timeout; bound=sender after EOF; one step: ACK(EOF) | timeout | keep-alive (may be inconclusive: the NAK arm of process_pdu is executed on garbage); stubs=S1,S2,S3,S6
th!(#[kani::stub(<std::hash::DefaultHasher as std::hash::Hasher>::finish, crate::c07::hasher_finish_stub)] c03_x_send_after_eof_pdus, 5, { send_step(false, true) });
//# funcs=SendTransaction::process_pdu(Ack),handle_timeout; bound=cancelled sender after EOF(cancel); one step: ACK(EOF) | timeout | keep-alive (may be inconclusive); stubs=S1,S2,S3,S6
th!(#[kani::stub(<std::hash::DefaultHasher as std::hash::Hasher>::finish, crate::c07::hasher_finish_stub)] c03_x_send_after_cancel_eof_pdus, 5, { send_step(true, true) });

//# funcs=SendTransaction::process_pdu(Finished),send_pdu(Finished),send_ack; bound=sender receives Finished in SendEof or Cancelled, then sends the ACK: terminated; stubs=S1,S2,S3
th!(#[kani::stub(<std::hash::DefaultHasher as std::hash::Hasher>::finish, crate::c07::hasher_finish_stub)] c03_x_send_finished_terminates, 5, {
    let ch = chans();
    let mut t = sender_after_eof(kani::any(), &ch);
    let fin = Finished { condition: any_condition(), delivery_code: DeliveryCode::Complete, file_status: FileStatusCode::Unreported, filestore_response: vec![], fault_location: None };
    t.process_pdu(directive(A, Direction::ToSender, Operations::Finished(fin))).unwrap();
    assert!(send_enabled(&t) && verif::send_has_pdu_to_send(&t), "ACK(Finished) is due");
    let out1 = send_send(&mut t, &ch);
    match &out1 {
        Some((_, PDU { payload: PDUPayload::Directive(Operations::Ack(a)), .. })) => assert!(a.directive == PDUDirective::Finished),
        _ => assert!(false, "ACK(Finished) expected"),
    }
    forget(out1);
    assert!(verif::send_state(&t) == TransactionState::Terminated, "the transaction ends");
    kani::cover!(true, "end");
    forget(t);
    forget(ch);
});

/// receiver that has just transmitted its Finished (normal or cancel) through the real `send_pdu`
fn receiver_after_finished(cancelled: bool, ch: &Chans) -> RecvTransaction<ModelFs> {
    verif::set_now(Duration::from_secs(NOW));
    let mut p = recv_parts(config(A), NakProcedure::Deferred(Duration::ZERO), ch);
    p.metadata = Some(metadata(false, 0, false, ChecksumType::Modular, vec![]));
    p.file_size = Some(0);
    p.checksum = Some(0);
    p.recv_state = if cancelled { VRecvState::Cancelled } else { VRecvState::Finished };
    p.condition = if cancelled { Condition::CancelReceived } else { Condition::NoError };
    p.delivery_code = if cancelled { DeliveryCode::Incomplete } else { DeliveryCode::Complete };
    p.finished = Some((
        Finished { condition: p.condition, delivery_code: p.delivery_code, file_status: FileStatusCode::Unreported, filestore_response: vec![], fault_location: None },
        true,
    ));
    p.timer.inactivity = counter(10, 2, NOW - 1, 0, false, false);
    let mut t = RecvTransaction::verif_from_parts(p);
    let pdu = recv_send(&mut t, ch);
    assert!(pdu.is_some());
    forget(pdu);
    t
}
fn recv_step(cancelled: bool) {
    let ch = chans();
    let mut t = receiver_after_finished(cancelled, &ch);
    assert!(recv_enabled(&t));
    let step: u8 = kani::any();
    kani::assume(step < 3);
    let dt: u64 = kani::any();
    kani::assume(dt <= 7);
    verif::set_now(Duration::from_secs(NOW + dt));
    match step {
        0 => {
            t.handle_timeout().unwrap();
            assert!(
                verif::recv_state(&t) == TransactionState::Terminated
                    || verif::recv_has_pdu_to_send(&t)
                    || verif::recv_until_timeout(&t) > Duration::ZERO,
                "no spin: after the timeout handler the next wake-up lies in the future"
            );
        }
        1 => {
            let eof = EndOfFile { condition: Condition::NoError, checksum: 0, file_size: 0, fault_location: None };
            let r = t.process_pdu(directive(A, Direction::ToReceiver, Operations::EoF(eof)));
            forget(r);
        }
        _ => {
            let r = t.process_pdu(directive(A, Direction::ToReceiver, Operations::Ack(PositiveAcknowledgePDU {
                directive: PDUDirective::Finished,
                directive_subtype_code: ACKSubDirective::Finished,
                condition: Condition::NoError,
                transaction_status: TransactionStatus::Active,
            })));
            forget(r);
            assert!(verif::recv_state(&t) == TransactionState::Terminated, "ACK(Finished) ends the receiver");
        }
    }
    assert!(recv_enabled(&t), "the transaction can still be woken: terminated, something to send, or a timer running");
    kani::cover!(step == 0 && dt >= 6, "two expiries");
    forget(t);
    forget(ch);
}
//# funcs=RecvTransaction::send_pdu(Finished),handle_timeout,process_pdu(EoF|Ack),has_pdu_to_send,until_timeout; bound=receiver after its Finished was sent; one step: timeout at +0..7 s | duplicate EOF | ACK(Finished); stubs=S1,S2,S3
th!(c03_q_recv_after_finished, 10, { recv_step(false) });
//# funcs=RecvTransaction::send_pdu(Cancelled),handle_timeout,process_pdu; bound=cancelled receiver after Finished(cancel) was sent; stubs=S1,S2,S3
th!(c03_q_recv_after_cancel_finished, 10, { recv_step(true) });

//# funcs=RecvTransaction::new,process_pdu(EoF|FileData),handle_timeout,until_timeout; bound=fresh receiver (real constructor), one PDU (EOF for an n-byte file, or data), then a timeout tick at +0..12 s; stubs=S1,S2,S3,S5
th!(c03_x_recv_data_phase, 10, {
    let ch = chans();
    link_libc();
    verif::set_now(Duration::from_secs(NOW));
    let mut t = RecvTransaction::new(config(A), NakProcedure::Deferred(Duration::ZERO), std::sync::Arc::new(ModelFs), ch.ind_tx.clone());
    assert!(recv_enabled(&t), "the inactivity timer runs from the start");
    if kani::any() {
        let n: u64 = kani::any();
        kani::assume(n < (1 << 32));
        let eof = EndOfFile { condition: Condition::NoError, checksum: kani::any(), file_size: n, fault_location: None };
        t.process_pdu(directive(A, Direction::ToReceiver, Operations::EoF(eof))).unwrap();
    } else {
        let off: u64 = kani::any();
        kani::assume(off < (1 << 32));
        t.process_pdu(filedata(A, off, vec![kani::any()])).unwrap();
    }
    assert!(recv_enabled(&t));
    let dt: u64 = kani::any();
    kani::assume(dt <= 12);
    verif::set_now(Duration::from_secs(NOW + dt));
    t.handle_timeout().unwrap();
    assert!(
        verif::recv_state(&t) == TransactionState::Terminated || verif::recv_has_pdu_to_send(&t) || verif::recv_until_timeout(&t) > Duration::ZERO,
        "no spin"
    );
    assert!(recv_enabled(&t));
    kani::cover!(dt >= 10, "inactivity expiry");
    forget(t);
    forget(ch);
});


//# funcs=SendTransaction::send_pdu(Cancelled),send_eof,handle_timeout(Cancelled),abandon,Counter::update; bound=sender cancelled by the ACK-limit fault (count already at the limit), EOF(cancel) sent, peer silent: the next ACK-timer expiry (tick at +3..7 s) ends the transaction; stubs=S1,S2,S3
th!(c03_q_send_fault_cancel_terminates, 10, {
    let ch = chans();
    let mut t = sender_after_eof_c(true, 2, &ch);
    assert!(send_enabled(&t), "the ACK timer guards the wait for the ACK of EOF(cancel)");
    let dt: u64 = kani::any();
    kani::assume(dt >= 3 && dt <= 7);
    verif::set_now(Duration::from_secs(NOW + dt));
    t.handle_timeout().unwrap();
    assert!(verif::send_state(&t) == TransactionState::Terminated, "bounded: a cancelled sender whose peer stays silent is abandoned at the next expiry");
    kani::cover!(true, "end");
    forget(t);
    forget(ch);
});
