//! C18 — unacknowledged mode is one-way unless closure is requested; closure works.
use crate::env::*;
use cfdp_core::{daemon::NakProcedure, filestore::ChecksumType, pdu::*, transaction::TransactionState};
use cfdp_daemon::{
    transaction::{RecvTransaction, SendTransaction},
    verif::{self, VRecvState, VSendState},
};
use std::{mem::forget, time::Duration};

const U: TransmissionMode = TransmissionMode::Unacknowledged;
const NOW: u64 = 500;

fn unack_receiver(closure: bool, with_md: bool, shape: u8, ch: &Chans) -> (RecvTransaction<ModelFs>, [u64; 4], usize) {
    link_libc();
    verif::set_now(Duration::from_secs(NOW));
    let mut p = recv_parts(config(U), NakProcedure::Deferred(Duration::ZERO), ch);
    if with_md {
        p.metadata = Some(metadata(true, 4, closure, ChecksumType::Modular, vec![]));
    }
    let (b, k) = stage_shape(&mut p, shape);
    p.timer.inactivity = counter(10, 2, NOW, 0, false, false);
    (RecvTransaction::verif_from_parts(p), b, k)
}

/// one non-data, non-EOF PDU kind per harness (rule 3: a symbolic kind makes symex pay for five full steps at once)
fn silent_directive(which: u8) {
    let ch = chans();
    let closure: bool = kani::any();
    let (mut t, _b, _k) = unack_receiver(closure, true, 2, &ch);
    let r = match which {
        0 => t.process_pdu(directive(U, Direction::ToReceiver, Operations::Prompt(PromptPDU { nak_or_keep_alive: NakOrKeepAlive::Nak }))),
        1 => t.process_pdu(directive(U, Direction::ToReceiver, Operations::Prompt(PromptPDU { nak_or_keep_alive: NakOrKeepAlive::KeepAlive }))),
        2 => t.process_pdu(directive(U, Direction::ToReceiver, Operations::KeepAlive(KeepAlivePDU { progress: kani::any() }))),
        3 => t.process_pdu(directive(U, Direction::ToReceiver, Operations::Nak(NegativeAcknowledgmentPDU { start_of_scope: 0, end_of_scope: 4, segment_requests: vec![] }))),
        _ => t.process_pdu(directive(U, Direction::ToReceiver, Operations::Ack(PositiveAcknowledgePDU { directive: PDUDirective::EoF, directive_subtype_code: ACKSubDirective::Other, condition: Condition::NoError, transaction_status: TransactionStatus::Active }))),
    };
    forget(r);
    assert!(!verif::recv_has_pdu_to_send(&t), "nothing to transmit before EOF");
    assert!(t.verif_ack().is_none() && t.verif_naks().is_empty() && !t.verif_has_prompt(), "no ACK, NAK or keep-alive is ever armed");
    kani::cover!(closure, "closure requested");
    forget(t);
    forget(ch);
}
//# funcs=RecvTransaction::process_pdu(Prompt NAK) unacknowledged,has_pdu_to_send; bound=closure on/off, head of a 4-byte file held; stubs=S1,S2,S3,S5
th!(c18_q_recv_silent_prompt_nak, 10, { silent_directive(0) });
//# funcs=RecvTransaction::process_pdu(Prompt keep-alive) unacknowledged,has_pdu_to_send; bound=closure on/off, head of a 4-byte file held; stubs=S1,S2,S3,S5
th!(c18_q_recv_silent_prompt_keepalive, 10, { silent_directive(1) });
//# funcs=RecvTransaction::process_pdu(KeepAlive) unacknowledged,has_pdu_to_send; bound=closure on/off, any progress value; stubs=S1,S2,S3,S5
th!(c18_t_recv_silent_keepalive, 10, { silent_directive(2) });
//# funcs=RecvTransaction::process_pdu(Nak) unacknowledged,has_pdu_to_send; bound=closure on/off; stubs=S1,S2,S3,S5
th!(c18_t_recv_silent_nak, 10, { silent_directive(3) });
//# funcs=RecvTransaction::process_pdu(Ack) unacknowledged,has_pdu_to_send; bound=closure on/off, ACK(EOF); stubs=S1,S2,S3,S5
th!(c18_q_recv_silent_ack, 10, { silent_directive(4) });
//# funcs=RecvTransaction::process_pdu(FileData) unacknowledged,store_file_data; bound=nothing held yet, 1 byte at offset 0..=3 (creates gaps): nothing is armed; stubs=S1,S2,S3,S5
th!(c18_q_recv_silent_file_data, 10, {
    let ch = chans();
    let (mut t, _b, _k) = unack_receiver(kani::any(), true, 0, &ch);
    let off: u64 = kani::any();
    kani::assume(off <= 3);
    t.process_pdu(filedata(U, off, vec![kani::any()])).unwrap();
    assert!(!verif::recv_has_pdu_to_send(&t), "nothing to transmit before EOF");
    assert!(t.verif_ack().is_none() && t.verif_naks().is_empty() && !t.verif_has_prompt(), "no ACK, NAK or keep-alive is ever armed");
    kani::cover!(off == 3, "gap before the data");
    forget(t);
    forget(ch);
});

fn recv_eof(closure: bool, with_md: bool, shape: u8) {
    let ch = chans();
    let l = 4usize;
    let (mut t, b, k) = unack_receiver(closure, with_md, shape, &ch);
    let complete = with_md && k == 1 && b[0] == 0 && b[1] == l as u64;
    let cks: u32 = kani::any();
    let eof = EndOfFile { condition: Condition::NoError, checksum: cks, file_size: l as u64, fault_location: None };
    t.process_pdu(directive(U, Direction::ToReceiver, Operations::EoF(eof))).unwrap();
    let fin = verif::ind_last_kind(verif::K_FINISHED);
    let reported_complete = match fin {
        Some((codes, _)) => codes == (((Condition::NoError as u64) << 8) | ((DeliveryCode::Complete as u64) << 4) | FileStatusCode::Retained as u64)
            || (codes >> 4) & 0xF == DeliveryCode::Complete as u64 && codes >> 8 == Condition::NoError as u64,
        None => false,
    };
    assert!(t.verif_ack().is_none() && t.verif_naks().is_empty() && !t.verif_has_prompt(), "no ACK, NAK or keep-alive is ever armed");
    if !closure || !with_md {
        assert!(verif::recv_state(&t) == TransactionState::Terminated || t.verif_recv_state() == VRecvState::Cancelled, "without closure the receiver ends on EOF");
    } else if verif::recv_state(&t) != TransactionState::Terminated {
        assert!(verif::recv_has_pdu_to_send(&t), "closure: Finished is due");
        match t.verif_finished() {
            Some((f, true)) => assert!(
                f.condition == t.verif_condition() && f.delivery_code == t.verif_delivery_code() && f.file_status == t.verif_file_status(),
                "Finished carries the recorded outcome"
            ),
            _ => assert!(false, "Finished armed"),
        }
    }
    // LAST: Kani's assert! cuts the path after a failing assertion, and this one fails on the pinned tree (known
    // finding D14) - placed earlier it would hide every later obligation of this harness
    if !complete {
        assert!(!reported_complete, "missing data or metadata: no complete delivery is reported");
        assert!(!(t.verif_delivery_code() == DeliveryCode::Complete && t.verif_condition() == Condition::NoError), "recorded outcome is not a clean complete delivery");
    }
    kani::cover!(complete && reported_complete, "clean delivery");
    kani::cover!(!complete, "incomplete at EOF");
    forget(t);
    forget(ch);
}
//# funcs=RecvTransaction::process_pdu(EoF) unacknowledged,check_file_size,finalize_receive,verify_checksum,finalize_file,shutdown; bound=4-byte file completely held, content+checksum symbolic, closure off; stubs=S1,S2,S3,S5; nocover=incomplete at EOF
th!(c18_q_recv_eof_complete, 12, { recv_eof(false, true, 1) });
//# funcs=RecvTransaction::process_pdu(EoF) unacknowledged with closure,prepare_finished; bound=4-byte file completely held, closure on; stubs=S1,S2,S3,S5; nocover=incomplete at EOF
th!(c18_q_recv_eof_complete_closure, 12, { recv_eof(true, true, 1) });
//# funcs=RecvTransaction::process_pdu(EoF) unacknowledged,finalize_receive,verify_checksum; bound=head of the 4-byte file missing (held (2,4)), content+checksum symbolic: no complete delivery may be reported; stubs=S1,S2,S3,S5; nocover=clean delivery
th!(c18_q_recv_eof_head_missing, 12, { recv_eof(false, true, 3) });
//# funcs=RecvTransaction::process_pdu(EoF) unacknowledged; bound=tail missing (held (0,2)), closure on; stubs=S1,S2,S3,S5; nocover=clean delivery
th!(c18_t_recv_eof_tail_missing_closure, 12, { recv_eof(true, true, 2) });
//# funcs=RecvTransaction::process_pdu(EoF) unacknowledged,check_file_size,finalize_receive,shutdown; bound=metadata missing, nothing held, EOF for a 4-byte file; unwind 4 (rule 7: with no metadata the reinterpreted Metadata arm is walked too - at unwind 12 that did not finish, at 4 it takes 2 min and no real loop needs more); stubs=S1,S2,S3,S5; nocover=clean delivery
th!(c18_q_recv_eof_no_metadata, 4, { recv_eof(false, false, 0) });
//# funcs=RecvTransaction::process_pdu(EoF) unacknowledged; bound=no data received at all for a 4-byte file, closure on; stubs=S1,S2,S3,S5; nocover=clean delivery
th!(c18_t_recv_eof_nothing_held, 12, { recv_eof(true, true, 0) });

fn unack_sender(closure: bool, ch: &Chans) -> SendTransaction<ModelFs> {
    link_libc();
    verif::set_now(Duration::from_secs(NOW));
    let mut p = send_parts(config(U), metadata(false, 0, closure, ChecksumType::Modular, vec![]), ch);
    p.send_state = VSendState::SendEof;
    p.checksum = Some(0);
    p.eof = Some((EndOfFile { condition: Condition::NoError, checksum: 0, file_size: 0, fault_location: None }, true));
    SendTransaction::verif_from_parts(p)
}
//# funcs=SendTransaction::send_pdu(SendEof) unacknowledged,send_eof,shutdown; bound=closure on/off, EOF armed; stubs=S1,S2,S3
th!(c18_q_send_eof_closure, 8, {
    let ch = chans();
    let closure: bool = kani::any();
    let mut t = unack_sender(closure, &ch);
    let out8 = send_send(&mut t, &ch);
    match &out8 {
        Some((_, PDU { payload: PDUPayload::Directive(Operations::EoF(_)), .. })) => {}
        _ => assert!(false, "EOF expected"),
    }
    forget(out8);
    if closure {
        assert!(verif::send_state(&t) != TransactionState::Terminated, "closure requested: the sender waits for Finished");
        assert!(verif::ind_count_kind(verif::K_FINISHED) == 0, "no outcome reported before Finished arrives");
        assert!(verif::send_until_timeout(&t) < Duration::MAX, "a timer bounds the wait");
    } else {
        assert!(verif::send_state(&t) == TransactionState::Terminated, "no closure: ends on EOF");
        assert!(verif::ind_count_kind(verif::K_FINISHED) == 1);
    }
    kani::cover!(closure, "closure");
    kani::cover!(!closure, "no closure");
    forget(t);
    forget(ch);
});
//# funcs=SendTransaction::process_pdu(Finished) unacknowledged; bound=closure requested, any Finished codes; stubs=S1,S2,S3
th!(c18_q_send_finished_closure, 8, {
    let ch = chans();
    let mut t0 = unack_sender(true, &ch);
    let cond = any_condition();
    let dc = if kani::any() { DeliveryCode::Complete } else { DeliveryCode::Incomplete };
    let fin = Finished { condition: cond, delivery_code: dc, file_status: FileStatusCode::Unreported, filestore_response: vec![], fault_location: None };
    t0.process_pdu(directive(U, Direction::ToSender, Operations::Finished(fin))).unwrap();
    assert!(verif::send_state(&t0) == TransactionState::Terminated, "ends once the outcome is known");
    let (codes, n) = verif::ind_last_kind(verif::K_FINISHED).unwrap();
    assert!(codes >> 8 == cond as u64 && (codes >> 4) & 0xF == dc as u64 && n == 0, "the receiver's outcome is reported to the user");
    kani::cover!(true, "end");
    forget(t0);
    forget(ch);
});

//# funcs=RecvTransaction::send_pdu(Finished) unacknowledged with closure,send_finished; bound=receiver after EOF with closure requested (outcome codes symbolic): exactly one Finished with the recorded outcome leaves; stubs=S1,S2,S3
th!(c18_q_recv_closure_sends_finished, 10, {
    let ch = chans();
    verif::set_now(Duration::from_secs(NOW));
    let mut p = recv_parts(config(U), NakProcedure::Deferred(Duration::ZERO), &ch);
    p.metadata = Some(metadata(false, 0, true, ChecksumType::Modular, vec![]));
    p.recv_state = VRecvState::Finished;
    p.condition = any_condition();
    p.delivery_code = if kani::any() { DeliveryCode::Complete } else { DeliveryCode::Incomplete };
    p.finished = Some((
        Finished { condition: p.condition, delivery_code: p.delivery_code, file_status: FileStatusCode::Unreported, filestore_response: vec![], fault_location: None },
        true,
    ));
    let mut t = RecvTransaction::verif_from_parts(p);
    let out = recv_send(&mut t, &ch);
    match &out {
        Some((dest, PDU { payload: PDUPayload::Directive(Operations::Finished(f)), header })) => {
            assert!(*dest == VariableID::from(SRC_ID) && header.direction == Direction::ToSender);
            assert!(f.condition == t.verif_condition() && f.delivery_code == t.verif_delivery_code(), "the true outcome");
        }
        _ => assert!(false, "Finished expected"),
    }
    forget(out);
    assert!(!verif::recv_has_pdu_to_send(&t));
    kani::cover!(true, "end");
    forget(t);
    forget(ch);
});
