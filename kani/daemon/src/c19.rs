//! C19 — suspend really suspends (one-step obligations at each entity); timers count only un-suspended time.
use crate::env::*;
use cfdp_core::{daemon::NakProcedure, filestore::ChecksumType, pdu::*, transaction::TransactionState};
use cfdp_daemon::{
    transaction::{RecvTransaction, SendTransaction},
    verif::{self, VRecvState, VSendState},
};
use std::{mem::forget, time::Duration};

const NOW: u64 = 1000;
const A: TransmissionMode = TransmissionMode::Acknowledged;

fn sender_in(phase: VSendState, armed: bool, ch: &Chans) -> SendTransaction<ModelFs> {
    link_libc();
    verif::set_now(Duration::from_secs(NOW));
    let content: [u8; CAP] = kani::any();
    set_file(SRC, &content[..3]);
    let mut p = send_parts(config(A), metadata(true, 3, false, ChecksumType::Modular, vec![]), ch);
    p.send_state = phase;
    match phase {
        VSendState::SendMetadata => {}
        VSendState::SendData => {
            p.file_handle = Some(handle(SRC));
        }
        VSendState::SendEof => {
            p.file_handle = Some(handle(SRC));
            set_pos(SRC, 3);
            p.sent_file_size = 3;
            p.checksum = Some(0);
            p.eof = Some((EndOfFile { condition: Condition::NoError, checksum: 0, file_size: 3, fault_location: None }, armed));
            if !armed {
                p.naks.push_back(SegmentRequestForm { start_offset: 0, end_offset: 2 });
            }
            p.timer.ack = counter(3, 2, NOW - 1, 0, false, false);
            p.timer.inactivity = counter(10, 2, NOW - 1, 0, false, false);
        }
        VSendState::Cancelled => {
            p.condition = Condition::CancelReceived;
            p.checksum = Some(0);
            p.eof = Some((
                EndOfFile { condition: Condition::CancelReceived, checksum: 0, file_size: 3, fault_location: Some(VariableID::from(SRC_ID)) },
                armed,
            ));
            p.timer.ack = counter(3, 2, NOW - 1, 0, false, false);
        }
        VSendState::Finished => {
            p.ack = Some(PositiveAcknowledgePDU {
                directive: PDUDirective::Finished,
                directive_subtype_code: ACKSubDirective::Finished,
                condition: Condition::NoError,
                transaction_status: TransactionStatus::Undefined,
            });
        }
    }
    SendTransaction::verif_from_parts(p)
}
fn allowed_while_suspended(p: &PDU) -> bool {
    matches!(
        &p.payload,
        PDUPayload::Directive(Operations::Ack(_)) | PDUPayload::Directive(Operations::KeepAlive(_)) | PDUPayload::Directive(Operations::Prompt(_))
    )
}
fn send_suspended_transmits(phase: VSendState, armed: bool) {
    let ch = chans();
    let mut t = sender_in(phase, armed, &ch);
    t.suspend().unwrap();
    assert!(verif::send_state(&t) == TransactionState::Suspended && verif::ind_count_kind(verif::K_SUSPENDED) == 1);
    if verif::send_has_pdu_to_send(&t) {
        let out9 = send_send(&mut t, &ch);
        match &out9 {
            Some((_, pdu)) => {
                let ok = allowed_while_suspended(&pdu);
                forget(pdu);
                assert!(ok, "a suspended entity transmits no metadata, file data, EOF, NAK or Finished");
            }
            None => {}
        }
        forget(out9);
    }
    kani::cover!(true, "end");
    forget(t);
    forget(ch);
}
//# funcs=SendTransaction::suspend,has_pdu_to_send,send_pdu; bound=sender suspended in phase SendMetadata; stubs=S1,S2,S3,S5
th!(c19_q_send_suspended_metadata, 12, { send_suspended_transmits(VSendState::SendMetadata, true) });
//# funcs=SendTransaction::suspend,has_pdu_to_send,send_pdu; bound=sender suspended in phase SendData (3-byte file); stubs=S1,S2,S3,S5
th!(c19_q_send_suspended_data, 12, { send_suspended_transmits(VSendState::SendData, true) });
//# funcs=SendTransaction::suspend,has_pdu_to_send,send_pdu,send_eof; bound=sender suspended in phase SendEof with the EOF armed; stubs=S1,S2,S3,S5
th!(c19_q_send_suspended_eof, 12, { send_suspended_transmits(VSendState::SendEof, true) });
//# funcs=SendTransaction::suspend,has_pdu_to_send,send_pdu,send_missing_data; bound=sender suspended in phase SendEof with one queued NAK request; stubs=S1,S2,S3,S5
th!(c19_q_send_suspended_retransmission, 12, { send_suspended_transmits(VSendState::SendEof, false) });
//# funcs=SendTransaction::suspend,has_pdu_to_send,send_pdu; bound=sender suspended in phase Cancelled with EOF(cancel) armed; stubs=S1,S2,S3
th!(c19_q_send_suspended_cancelled, 12, { send_suspended_transmits(VSendState::Cancelled, true) });
//# funcs=SendTransaction::suspend,has_pdu_to_send,send_pdu,send_ack; bound=sender suspended in phase Finished (ACK(Finished) armed); stubs=S1,S2,S3
th!(c19_q_send_suspended_finished, 12, { send_suspended_transmits(VSendState::Finished, true) });

//# funcs=SendTransaction::suspend,handle_timeout,until_timeout,resume,Counter::pause/restart; bound=sender suspended in phase SendEof (waiting for the ACK of EOF), clock advanced by up to 1000 s; stubs=S1,S2,S3,S5
fn send_suspended_timers(phase: VSendState) {
    let ch = chans();
    let mut t = sender_in(phase, false, &ch);
    t.suspend().unwrap();
    verif::ind_reset();
    let dt: u64 = kani::any();
    kani::assume(dt <= 1000);
    verif::set_now(Duration::from_secs(NOW + dt));
    assert!(verif::send_until_timeout(&t) == Duration::MAX, "no timer runs while suspended");
    t.handle_timeout().unwrap();
    assert!(verif::ind_count_kind(verif::K_FAULT) == 0 && verif::ind_count_kind(verif::K_ABANDON) == 0, "no timer fault while suspended, however long");
    assert!(verif::send_state(&t) == TransactionState::Suspended);
    t.resume().unwrap();
    assert!(verif::send_state(&t) == TransactionState::Active && verif::ind_count_kind(verif::K_RESUMED) == 1);
    let a = t.verif_timer().ack.verif_parts();
    let i = t.verif_timer().inactivity.verif_parts();
    assert!(!a.paused && a.start_time == Duration::from_secs(NOW + dt) && a.count == 0, "ACK timer counts from the resume instant");
    assert!(!i.paused && i.start_time == Duration::from_secs(NOW + dt), "inactivity timer counts from the resume instant");
    kani::cover!(dt > 100, "long suspension");
    forget(t);
    forget(ch);
}
th!(c19_q_send_suspended_timers_eof, 12, { send_suspended_timers(VSendState::SendEof) });
//# funcs=SendTransaction::suspend,handle_timeout,until_timeout,resume; bound=sender suspended in phase Cancelled, clock advanced by up to 1000 s; stubs=S1,S2,S3
th!(c19_q_send_suspended_timers_cancelled, 12, { send_suspended_timers(VSendState::Cancelled) });

fn receiver_in(phase: VRecvState, what: u8, ch: &Chans) -> RecvTransaction<ModelFs> {
    verif::set_now(Duration::from_secs(NOW));
    let mut p = recv_parts(config(A), NakProcedure::Deferred(Duration::ZERO), ch);
    p.metadata = Some(metadata(true, 10, false, ChecksumType::Modular, vec![]));
    p.timer.inactivity = counter(10, 2, NOW - 1, 0, false, false);
    p.recv_state = phase;
    match phase {
        VRecvState::ReceiveData => {
            p.file_size = Some(10);
            p.checksum = Some(0);
            p.saved_segments.merge((0, 4));
            p.received_file_size = 4;
            p.nak_received_file_size = 4;
            p.timer.nak = counter(5, 2, NOW - 1, 0, false, false);
            if what == 0 {
                p.naks.push_back(SegmentRequestForm { start_offset: 4, end_offset: 10 });
            } else if what == 1 {
                p.ack = Some(PositiveAcknowledgePDU {
                    directive: PDUDirective::EoF,
                    directive_subtype_code: ACKSubDirective::Other,
                    condition: Condition::NoError,
                    transaction_status: TransactionStatus::Undefined,
                });
            } else {
                p.prompt = Some(PromptPDU { nak_or_keep_alive: if what == 2 { NakOrKeepAlive::KeepAlive } else { NakOrKeepAlive::Nak } });
            }
        }
        _ => {
            p.condition = if phase == VRecvState::Cancelled { Condition::CancelReceived } else { Condition::NoError };
            p.finished = Some((
                Finished {
                    condition: p.condition,
                    delivery_code: DeliveryCode::Incomplete,
                    file_status: FileStatusCode::Unreported,
                    filestore_response: vec![],
                    fault_location: None,
                },
                true,
            ));
            p.timer.ack = counter(3, 2, NOW - 1, 0, false, false);
        }
    }
    RecvTransaction::verif_from_parts(p)
}
fn recv_suspended_transmits(phase: VRecvState, what: u8) {
    let ch = chans();
    let mut t = receiver_in(phase, what, &ch);
    t.suspend().unwrap();
    assert!(verif::recv_state(&t) == TransactionState::Suspended && verif::ind_count_kind(verif::K_SUSPENDED) == 1);
    if verif::recv_has_pdu_to_send(&t) {
        let out10 = recv_send(&mut t, &ch);
        match &out10 {
            Some((_, pdu)) => {
                let ok = allowed_while_suspended(&pdu);
                forget(pdu);
                assert!(ok, "a suspended entity transmits no metadata, file data, EOF, NAK or Finished");
            }
            None => {}
        }
        forget(out10);
    }
    kani::cover!(true, "end");
    forget(t);
    forget(ch);
}
//# funcs=RecvTransaction::suspend,has_pdu_to_send,send_pdu,send_naks; bound=receiver suspended while a NAK is queued; stubs=S1,S2,S3
th!(c19_q_recv_suspended_nak_queued, 10, { recv_suspended_transmits(VRecvState::ReceiveData, 0) });
//# funcs=RecvTransaction::suspend,has_pdu_to_send,send_pdu,send_ack_eof; bound=receiver suspended with only ACK(EOF) armed; stubs=S1,S2,S3
th!(c19_q_recv_suspended_ack_only, 10, { recv_suspended_transmits(VRecvState::ReceiveData, 1) });
//# funcs=RecvTransaction::suspend,has_pdu_to_send,send_pdu,answer_prompt; bound=receiver suspended with a keep-alive prompt pending; stubs=S1,S2,S3
th!(c19_q_recv_suspended_keepalive_prompt, 10, { recv_suspended_transmits(VRecvState::ReceiveData, 2) });
//# funcs=RecvTransaction::suspend,has_pdu_to_send,send_pdu,answer_prompt; bound=receiver suspended with a NAK prompt pending; stubs=S1,S2,S3
th!(c19_t_recv_suspended_nak_prompt, 10, { recv_suspended_transmits(VRecvState::ReceiveData, 3) });
//# funcs=RecvTransaction::suspend,has_pdu_to_send,send_pdu,send_finished; bound=receiver suspended in phase Finished (Finished armed or not); stubs=S1,S2,S3
th!(c19_q_recv_suspended_finished, 10, { recv_suspended_transmits(VRecvState::Finished, 0) });
//# funcs=RecvTransaction::suspend,has_pdu_to_send,send_pdu,send_finished; bound=receiver suspended in phase Cancelled; stubs=S1,S2,S3
th!(c19_t_recv_suspended_cancelled, 10, { recv_suspended_transmits(VRecvState::Cancelled, 0) });

//# funcs=RecvTransaction::suspend,handle_timeout,until_timeout,resume,Counter::pause/reset; bound=receiver suspended in any phase, clock advanced by up to 1000 s; stubs=S1,S2,S3
th!(c19_q_recv_suspended_timers, 10, {
    let ch = chans();
    let ph: u8 = kani::any();
    kani::assume(ph < 3);
    let phase = match ph {
        0 => VRecvState::ReceiveData,
        1 => VRecvState::Finished,
        _ => VRecvState::Cancelled,
    };
    let mut t = receiver_in(phase, 1, &ch);
    t.suspend().unwrap();
    verif::ind_reset();
    let dt: u64 = kani::any();
    kani::assume(dt <= 1000);
    verif::set_now(Duration::from_secs(NOW + dt));
    assert!(verif::recv_until_timeout(&t) == Duration::MAX, "no timer runs while suspended");
    t.handle_timeout().unwrap();
    assert!(verif::ind_count_kind(verif::K_FAULT) == 0 && verif::ind_count_kind(verif::K_ABANDON) == 0, "no timer fault while suspended, however long");
    assert!(verif::recv_state(&t) == TransactionState::Suspended);
    t.resume().unwrap();
    assert!(verif::recv_state(&t) == TransactionState::Active && verif::ind_count_kind(verif::K_RESUMED) == 1);
    let i = t.verif_timer().inactivity.verif_parts();
    assert!(!i.paused && i.start_time == Duration::from_secs(NOW + dt) && i.count == 0, "inactivity counts from the resume instant");
    if phase == VRecvState::ReceiveData {
        let n = t.verif_timer().nak.verif_parts();
        assert!(!n.paused && n.start_time == Duration::from_secs(NOW + dt), "NAK timer counts from the resume instant");
    } else {
        let a = t.verif_timer().ack.verif_parts();
        assert!(!a.paused && a.start_time == Duration::from_secs(NOW + dt), "ACK timer counts from the resume instant");
    }
    kani::cover!(dt > 100, "long suspension");
    forget(t);
    forget(ch);
});
