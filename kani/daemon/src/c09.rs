//! C09 — the receiver's account of which bytes it holds is exact (Segments::{merge,is_complete,gaps}).
//! One step from EVERY list satisfying the representation invariant with k entries (sorted, disjoint,
//! non-adjacent, non-empty ranges, boundaries < 2^32 in the quick tier, < 2^62 in the thorough tier), symbolic arguments. Histories of any length that stay
//! within k entries are covered by induction; longer lists are outside the claim.
use cfdp_daemon::verif::Segments;
use std::mem::forget;

/// boundaries below LIM: 2^32 in the quick tier (every file the small-file-size flag can describe; the 64-bit
/// queries at 2^62 take 4-10 min each and sit at the memory cap on a loaded machine), 2^62 in the thorough tier
const LIM_Q: u64 = 1u64 << 32;
const LIM: u64 = 1u64 << 62;

/// every invariant list with exactly k entries
fn any_list(k: usize, lim: u64) -> (Segments, [(u64, u64); 3]) {
    let mut b = [(0u64, 0u64); 3];
    let mut v = Vec::with_capacity(4);
    let mut i = 0;
    while i < k {
        let lo: u64 = kani::any();
        let hi: u64 = kani::any();
        kani::assume(lo < hi && hi < lim);
        if i > 0 {
            kani::assume(lo > b[i - 1].1);
        }
        b[i] = (lo, hi);
        v.push((lo, hi));
        i += 1;
    }
    (Segments::verif_from(v), b)
}
fn overlap(x: u64, y: u64, s: (u64, u64)) -> u64 {
    let a = if x > s.0 { x } else { s.0 };
    let c = if y < s.1 { y } else { s.1 };
    if a < c {
        c - a
    } else {
        0
    }
}
fn held(b: &[(u64, u64); 3], k: usize, p: u64) -> bool {
    let mut i = 0;
    let mut r = false;
    while i < k {
        if b[i].0 <= p && p < b[i].1 {
            r = true;
        }
        i += 1;
    }
    r
}
// the list is read at CONCRETE indices (0..4) under a length guard: a loop bounded by the symbolic length makes every
// element access a symbolic-index read of the heap buffer
fn held_list(s: &Segments, p: u64) -> bool {
    let n = s.len();
    let mut i = 0;
    let mut r = false;
    while i < 4 {
        if i < n {
            let e = s.verif_get(i);
            if e.0 <= p && p < e.1 {
                r = true;
            }
        }
        i += 1;
    }
    r
}
fn invariant(s: &Segments) -> bool {
    let n = s.len();
    let mut i = 0;
    let mut ok = n <= 4;
    while i < 4 {
        if i < n {
            let e = s.verif_get(i);
            if !(e.0 < e.1) {
                ok = false;
            }
            if i > 0 && !(s.verif_get(i - 1).1 < e.0) {
                ok = false;
            }
        }
        i += 1;
    }
    ok
}

/// position class of the new segment's start relative to a k=2 list (splits the k=2 query)
fn class2(b: &[(u64, u64); 3], x: u64) -> u8 {
    if x < b[0].0 {
        0
    } else if x <= b[0].1 {
        1
    } else if x < b[1].0 {
        2
    } else if x <= b[1].1 {
        3
    } else {
        4
    }
}

/// what == 0: the returned byte count; what == 1: invariant + held set (two queries instead of one big one).
/// Covers are written so that they are trivially satisfiable where they do not apply: CBMC reports a cover in dead
/// code as unsatisfied, which the driver treats as a vacuity alarm.
fn merge_pre(k: usize, class: Option<u8>, lim: u64) -> (Segments, [(u64, u64); 3], u64, u64) {
    let (s, b) = any_list(k, lim);
    let (x, y): (u64, u64) = (kani::any(), kani::any());
    kani::assume(x < y && y < lim);
    if let Some(c) = class {
        kani::assume(class2(&b, x) == c);
    }
    (s, b, x, y)
}
fn merge_count(k: usize, class: Option<u8>, lim: u64) {
    let (mut s, b, x, y) = merge_pre(k, class, lim);
    let n = s.merge((x, y));
    let mut want = y - x;
    let mut i = 0;
    while i < k {
        want -= overlap(x, y, b[i]);
        i += 1;
    }
    let len = s.len();
    forget(s);
    assert!(n == want, "merge returns the number of newly covered bytes");
    assert!(len >= 1 && len <= k + 1);
    kani::cover!(k == 0 || class.is_some() || n == 0, "nothing new");
    kani::cover!(k == 0 || class.is_some() || (len < k + 1 && n > 0), "coalesced");
    kani::cover!(n > 0, "new bytes counted");
}
fn merge_set(k: usize, class: Option<u8>, lim: u64) {
    let (mut s, b, x, y) = merge_pre(k, class, lim);
    let p: u64 = kani::any();
    let before = held(&b, k, p);
    let _n = s.merge((x, y));
    let inv = invariant(&s);
    let after = held_list(&s, p);
    forget(s);
    assert!(inv, "list stays sorted, disjoint, non-adjacent");
    assert!(after == (before || (x <= p && p < y)), "held set == old set union new segment");
    kani::cover!(after && !before, "probe byte newly held");
    kani::cover!(k == 0 || (after && before), "probe byte held before");
}

macro_rules! merge_h {
    ($name:ident, $uw:expr, $k:expr, $class:expr, $f:ident, $lim:expr) => {
        #[kani::proof]
        #[kani::unwind($uw)]
        fn $name() {
            $f($k, $class, $lim);
        }
    };
}
//# funcs=Segments::merge,segments::merge; bound=pre-state: the empty list; returned count, invariant and held set; stubs=none
#[kani::proof]
#[kani::unwind(5)]
fn c09_q_merge_k0() {
    if kani::any() {
        merge_count(0, None, LIM)
    } else {
        merge_set(0, None, LIM)
    }
}
//# funcs=Segments::merge,segments::merge; bound=pre-state: every invariant list with 1 entry, boundaries < 2^32; returned byte count; stubs=none
merge_h!(c09_q_merge_k1_count, 5, 1, None, merge_count, LIM_Q);
//# funcs=Segments::merge,segments::merge; bound=pre-state: every invariant list with 1 entry; invariant preserved + held set (probe byte); stubs=none
merge_h!(c09_q_merge_k1_set, 5, 1, None, merge_set, LIM_Q);
//# funcs=Segments::merge,segments::merge; bound=pre-state: every invariant list with 2 entries, boundaries < 2^32, new segment starts before the first entry; returned byte count; stubs=none
merge_h!(c09_q_merge_k2_count_before_first, 6, 2, Some(0), merge_count, LIM_Q);
//# funcs=Segments::merge,segments::merge; bound=2 entries, boundaries < 2^32, new segment starts inside/at the end of the first entry; returned byte count; stubs=none
merge_h!(c09_q_merge_k2_count_in_first, 6, 2, Some(1), merge_count, LIM_Q);
//# funcs=Segments::merge,segments::merge; bound=2 entries, boundaries < 2^32, new segment starts in the gap; returned byte count; stubs=none
merge_h!(c09_q_merge_k2_count_between, 6, 2, Some(2), merge_count, LIM_Q);
//# funcs=Segments::merge,segments::merge; bound=2 entries, boundaries < 2^32, new segment starts inside/at the end of the last entry; returned byte count; stubs=none
merge_h!(c09_q_merge_k2_count_in_last, 6, 2, Some(3), merge_count, LIM_Q);
//# funcs=Segments::merge,segments::merge; bound=2 entries, boundaries < 2^32, new segment starts after the last entry; returned byte count; stubs=none
merge_h!(c09_q_merge_k2_count_after_last, 6, 2, Some(4), merge_count, LIM_Q);
//# funcs=Segments::merge,segments::merge; bound=2 entries, boundaries < 2^32, start before the first entry; invariant + held set; stubs=none
merge_h!(c09_t_merge_k2_set_before_first, 6, 2, Some(0), merge_set, LIM_Q);
//# funcs=Segments::merge,segments::merge; bound=2 entries, boundaries < 2^32, start in the first entry; invariant + held set; stubs=none
merge_h!(c09_t_merge_k2_set_in_first, 6, 2, Some(1), merge_set, LIM_Q);
//# funcs=Segments::merge,segments::merge; bound=2 entries, boundaries < 2^32, start in the gap; invariant + held set; stubs=none
merge_h!(c09_t_merge_k2_set_between, 6, 2, Some(2), merge_set, LIM_Q);
//# funcs=Segments::merge,segments::merge; bound=2 entries, boundaries < 2^32, start in the last entry; invariant + held set; stubs=none
merge_h!(c09_t_merge_k2_set_in_last, 6, 2, Some(3), merge_set, LIM_Q);
//# funcs=Segments::merge,segments::merge; bound=2 entries, boundaries < 2^32, start after the last entry; invariant + held set; stubs=none
merge_h!(c09_x_merge_k2_set_after_last, 6, 2, Some(4), merge_set, LIM_Q);
//# funcs=Segments::merge,segments::merge; bound=pre-state: every invariant list with 3 entries; returned byte count (may be inconclusive: memory); stubs=none
merge_h!(c09_x_merge_k3_count, 7, 3, None, merge_count, LIM);

//# funcs=Segments::merge,segments::merge; bound=pre-state: every invariant list with 1 entry, 64-bit boundaries < 2^62; returned byte count (4-7 min, ~10 GB); stubs=none
merge_h!(c09_t_merge_k1_count_wide, 5, 1, None, merge_count, LIM);
//# funcs=Segments::merge,segments::merge; bound=2 entries, boundaries < 2^62, new segment starts inside/at the end of the first entry; returned byte count (5-10 min, ~12 GB); stubs=none
merge_h!(c09_t_merge_k2_count_in_first_wide, 6, 2, Some(1), merge_count, LIM);

fn complete_step(k: usize) {
    let (s, b) = any_list(k, LIM);
    let n: u64 = kani::any();
    // data beyond the EOF size is a file-size fault, handled before completeness is consulted
    kani::assume(s.end_or_0() <= n);
    let got = s.is_complete(n);
    let want = n == 0 || (k == 1 && b[0].0 == 0 && b[0].1 == n);
    forget(s);
    assert!(got == want, "complete exactly when every byte of [0,n) is held (an empty file at once)");
    kani::cover!(got, "complete");
    kani::cover!(!got, "incomplete");
}
//# funcs=Segments::is_complete; bound=lists with 0,1,2 entries, any size n >= end of data; assume=received extent <= EOF size (FilesizeError otherwise); stubs=none
#[kani::proof]
#[kani::unwind(5)]
fn c09_q_is_complete() {
    let k: usize = kani::any();
    kani::assume(k <= 2);
    if k == 0 {
        complete_step(0)
    } else if k == 1 {
        complete_step(1)
    } else {
        complete_step(2)
    }
}

fn gaps_step(k: usize) {
    let (s, b) = any_list(k, LIM_Q);
    let (lo, hi): (u64, u64) = (kani::any(), kani::any());
    // callers never query an empty window (NAK scopes and delayed-NAK ranges are non-empty)
    kani::assume(lo < hi && hi < LIM_Q);
    let p: u64 = kani::any();
    let in_window = lo <= p && p < hi;
    let g = s.gaps(lo, hi);
    let mut ok_shape = g.len() <= 4;
    let mut in_gap = false;
    let mut i = 0;
    while i < 4 {
        if i < g.len() {
            let (a, c) = g[i];
            if !(lo <= a && a < c && c <= hi) {
                ok_shape = false;
            }
            if i > 0 && !(g[i - 1].1 < a) {
                ok_shape = false;
            }
            if a <= p && p < c {
                in_gap = true;
            }
        }
        i += 1;
    }
    let n = g.len();
    let is_held = held(&b, k, p);
    forget(g);
    forget(s);
    assert!(n <= k + 1);
    assert!(ok_shape, "gaps are non-empty, inside the window, ascending and not touching");
    assert!(!in_window || in_gap == !is_held, "a byte of the window is in a gap exactly when it is not held");
    assert!(in_window || !in_gap, "no gap reaches outside the window");
    kani::cover!(n == k + 1, "max gaps");
}
//# funcs=Segments::gaps; bound=lists with 0 or 1 entries, any non-empty window lo<hi<2^32, probe byte symbolic; stubs=none
#[kani::proof]
#[kani::unwind(6)]
fn c09_q_gaps_k01() {
    if kani::any() {
        gaps_step(0)
    } else {
        gaps_step(1)
    }
}
//# funcs=Segments::gaps; bound=lists with 2 entries (boundaries < 2^32), any window, probe byte symbolic; stubs=none
#[kani::proof]
#[kani::unwind(6)]
fn c09_q_gaps_k2() {
    gaps_step(2);
}
//# funcs=Segments::gaps; bound=lists with 3 entries; stubs=none
#[kani::proof]
#[kani::unwind(7)]
fn c09_x_gaps_k3() {
    gaps_step(3);
}
