//! Experiment behind rule 7 (not compiled: `mod x00` is commented out in lib.rs; run with `--harness x0`).
//! Question: does a PDU keep its variant and the constants inside it (Vec lengths) through a call?
//! Measured with `cbmc --verbosity 9` (loop unwindings inside the probe; the NAK holds ONE request, unwind 8):
//!   x03 `Operations` by value ............ 1 unwinding  (precise)
//!   x04 `NegativeAcknowledgmentPDU` by value 1           (precise)
//!   x01 `&PDU` .............................. 7           (variant kept, Vec length lost)
//!   x00/x02 `PDU` by value (builder / inline) 14 + drop glue of other variants (variant AND length lost)
//!   x05 local niche enum {FileData, Directive(Operations)} by value: 14 (lost)
//!   x06 the same with #[repr(u8)] (explicit tag) ................... 14 (lost)
//! Conclusion: not the niche encoding and not the call - a data-carrying enum NESTED in another data-carrying enum
//! (union inside union in the GOTO program) loses CBMC's field sensitivity; every arm of the inner `match` is then
//! executed on reinterpreted bytes. `process_pdu(PDU)` matches `payload` and then `operation`: no harness-side
//! construction avoids it, and splitting `process_pdu` would be a refactoring of the real code, not a hook.
use crate::env::*;
use cfdp_core::pdu::*;
use std::mem::forget;

#[inline(never)]
fn probe(pdu: PDU) -> u32 {
    let PDU { header: _h, payload } = pdu;
    let r = match payload {
        PDUPayload::FileData(_) => 200,
        PDUPayload::Directive(op) => match op {
            Operations::Nak(n) => {
                let mut k = 0;
                for r in n.segment_requests.iter() {
                    k += (r.end_offset - r.start_offset) as u32;
                }
                forget(n);
                k
            }
            Operations::EoF(_) => 100,
            Operations::Metadata(m) => {
                let mut k = 50;
                for _o in m.options.iter() {
                    k += 1;
                }
                forget(m);
                k
            }
            _ => 150,
        },
    };
    r
}
th!(x00_variant_probe, 8, {
    let nak = NegativeAcknowledgmentPDU { start_of_scope: 0, end_of_scope: 64, segment_requests: vec![SegmentRequestForm { start_offset: 0, end_offset: 3 }] };
    let pdu = directive(TransmissionMode::Acknowledged, Direction::ToSender, Operations::Nak(nak));
    let r = probe(pdu);
    assert!(r == 3);
    kani::cover!(true, "end");
});

#[inline(never)]
fn probe_ref(pdu: &PDU) -> u32 {
    match &pdu.payload {
        PDUPayload::FileData(_) => 200,
        PDUPayload::Directive(op) => match op {
            Operations::Nak(n) => {
                let mut k = 0;
                for r in n.segment_requests.iter() {
                    k += (r.end_offset - r.start_offset) as u32;
                }
                k
            }
            Operations::EoF(_) => 100,
            Operations::Metadata(m) => {
                let mut k = 50;
                for _o in m.options.iter() {
                    k += 1;
                }
                k
            }
            _ => 150,
        },
    }
}
fn mk() -> NegativeAcknowledgmentPDU {
    NegativeAcknowledgmentPDU { start_of_scope: 0, end_of_scope: 64, segment_requests: vec![SegmentRequestForm { start_offset: 0, end_offset: 3 }] }
}
// v1: by reference
th!(x01_by_ref, 8, {
    let pdu = directive(TransmissionMode::Acknowledged, Direction::ToSender, Operations::Nak(mk()));
    let r = probe_ref(&pdu);
    assert!(r == 3);
    forget(pdu);
    kani::cover!(true, "end");
});
// v2: constructed inline, by value
th!(x02_inline_by_value, 8, {
    let pdu = PDU { header: hdr(TransmissionMode::Acknowledged, PDUType::FileDirective, Direction::ToSender), payload: PDUPayload::Directive(Operations::Nak(mk())) };
    let r = probe(pdu);
    assert!(r == 3);
    kani::cover!(true, "end");
});
// v3: only the Operations by value
#[inline(never)]
fn probe_op(op: Operations) -> u32 {
    match op {
        Operations::Nak(n) => {
            let mut k = 0;
            for r in n.segment_requests.iter() {
                k += (r.end_offset - r.start_offset) as u32;
            }
            forget(n);
            k
        }
        Operations::EoF(_) => 100,
        Operations::Metadata(m) => {
            let mut k = 50;
            for _o in m.options.iter() {
                k += 1;
            }
            forget(m);
            k
        }
        _ => 150,
    }
}
th!(x03_op_by_value, 8, {
    let r = probe_op(Operations::Nak(mk()));
    assert!(r == 3);
    kani::cover!(true, "end");
});
// v4: the NAK struct by value
#[inline(never)]
fn probe_nak(n: NegativeAcknowledgmentPDU) -> u32 {
    let mut k = 0;
    for r in n.segment_requests.iter() {
        k += (r.end_offset - r.start_offset) as u32;
    }
    forget(n);
    k
}
th!(x04_nak_by_value, 8, {
    let r = probe_nak(mk());
    assert!(r == 3);
    kani::cover!(true, "end");
});

enum PayN {
    FileData(FileDataPDU),
    Directive(Operations),
}
#[repr(u8)]
enum PayT {
    FileData(FileDataPDU),
    Directive(Operations),
}
macro_rules! probe_local {
    ($f:ident, $t:ident) => {
        #[inline(never)]
        fn $f(p: (PDUHeader, $t)) -> u32 {
            let (_h, payload) = p;
            match payload {
                $t::FileData(_) => 200,
                $t::Directive(op) => match op {
                    Operations::Nak(n) => {
                        let mut k = 0;
                        for r in n.segment_requests.iter() {
                            k += (r.end_offset - r.start_offset) as u32;
                        }
                        forget(n);
                        k
                    }
                    Operations::EoF(_) => 100,
                    Operations::Metadata(m) => {
                        let mut k = 50;
                        for _o in m.options.iter() {
                            k += 1;
                        }
                        forget(m);
                        k
                    }
                    _ => 150,
                },
            }
        }
    };
}
probe_local!(probe_n, PayN);
probe_local!(probe_t, PayT);
th!(x05_local_niche, 8, {
    let r = probe_n((hdr(TransmissionMode::Acknowledged, PDUType::FileDirective, Direction::ToSender), PayN::Directive(Operations::Nak(mk()))));
    assert!(r == 3);
    kani::cover!(true, "end");
});
th!(x06_local_tagged, 8, {
    let r = probe_t((hdr(TransmissionMode::Acknowledged, PDUType::FileDirective, Direction::ToSender), PayT::Directive(Operations::Nak(mk()))));
    assert!(r == 3);
    kani::cover!(true, "end");
});
