//! Harness environment for the daemon harnesses:
//!  * S1  capture of PDUs handed to the transport (`Permit::send` stub)
//!  * S5  in-memory file table behind real `std::fs::File` handles: the libc entry points `lseek64`, `read`,
//!        `write`, `fsync`, `close` are DEFINED here (no_mangle) so that the real std File code runs on top of them;
//!        `File::metadata`/`Metadata::len` and `io::copy` are stubbed (statx / copy_file_range are out of reach)
//!  * the model `FileStore` (required methods over the same table; `process_request` scripted for C13b)
//!  * builders for configs, headers and transaction parts
use std::{
    collections::{HashMap, VecDeque},
    fs::{File, OpenOptions},
    io::{self, Read, Write},
    os::fd::{AsRawFd, FromRawFd},
    sync::Arc,
    time::Duration,
};

use camino::{Utf8Path, Utf8PathBuf};
use cfdp_core::{
    daemon::{Indication, NakProcedure},
    filestore::{ChecksumType, FileStore, FileStoreError, FileStoreResult},
    pdu::*,
    transaction::{Metadata, TransactionConfig, TransactionState},
};
use cfdp_daemon::{
    transaction::{RecvTransaction, SendTransaction},
    verif::{self, Counter, RecvParts, Segments, SendParts, Timer, VRecvState, VSendState},
};
use tokio::sync::mpsc::{channel, Permit, Receiver, Sender};

pub use crate::stubs::*;

// ------------------------------------------------------------------------------------------------ S1
// a TYPED slot: writing the PDU through a byte-array pointer makes CBMC encode every field byte-wise
static mut SLOT: Option<(VariableID, PDU)> = None;
pub static mut SENT: usize = 0;
/// stub for `tokio::sync::mpsc::Permit::send`: move the value into a harness-owned slot, forget the permit
/// (`T` is `(VariableID, PDU)` at the only instantiation; the size check guards the reinterpretation)
pub fn permit_send_stub<'a, T>(p: Permit<'a, T>, value: T)
where
    'a: 'a,
{
    unsafe {
        assert!(std::mem::size_of::<T>() == std::mem::size_of::<(VariableID, PDU)>());
        assert!(SLOT.is_none(), "one PDU per send_pdu call");
        let v: (VariableID, PDU) = std::mem::transmute_copy(&value);
        std::ptr::write(std::ptr::addr_of_mut!(SLOT), Some(v));
        SENT += 1;
    }
    std::mem::forget(value);
    std::mem::forget(p);
}
/// the PDU handed to the transport by the last `send_pdu`, if any
pub fn take_pdu() -> Option<(VariableID, PDU)> {
    unsafe { std::ptr::replace(std::ptr::addr_of_mut!(SLOT), None) }
}
pub struct Chans {
    pub tx: Sender<(VariableID, PDU)>,
    pub rx: std::cell::RefCell<Receiver<(VariableID, PDU)>>,
    pub ind_tx: Sender<Indication>,
    pub ind_rx: Receiver<Indication>,
}
pub fn chans() -> Chans {
    let (tx, rx) = channel::<(VariableID, PDU)>(4);
    let (ind_tx, ind_rx) = channel::<Indication>(1);
    Chans { tx, rx: std::cell::RefCell::new(rx), ind_tx, ind_rx }
}

// ------------------------------------------------------------------------------------------------ S5
pub const CAP: usize = 12;
pub const NF: usize = 4;
pub const SRC: usize = 0;
pub const DST: usize = 1;
pub const TMP: usize = 2;
pub const TMP2: usize = 3;
const FD0: i32 = 100;
pub static mut DATA: [[u8; CAP]; NF] = [[0; CAP]; NF];
pub static mut LEN: [usize; NF] = [0; NF];
pub static mut POS: [usize; NF] = [0; NF];
pub static mut WRITES: [usize; NF] = [0; NF];
pub static mut OPENS: [usize; NF] = [0; NF];
pub static mut CLOSES: usize = 0;
pub static mut TEMPS: usize = 0;
pub static mut OPEN_DST_FAILS: bool = false;
static mut META_LEN: u64 = 0;

#[cfg(not(test))]
mod libc_model {
    use super::*;
    #[no_mangle]
    pub extern "C" fn lseek64(fd: i32, off: i64, whence: i32) -> i64 {
        let i = (fd - FD0) as usize;
        unsafe {
            let np = match whence {
                0 => off,
                1 => POS[i] as i64 + off,
                _ => LEN[i] as i64 + off,
            };
            POS[i] = np as usize;
            np
        }
    }
    #[no_mangle]
    pub extern "C" fn write(fd: i32, buf: *const u8, n: usize) -> isize {
        let i = (fd - FD0) as usize;
        unsafe {
            WRITES[i] += 1;
            let mut k = 0;
            while k < n {
                if POS[i] < CAP {
                    DATA[i][POS[i]] = *buf.add(k);
                }
                POS[i] += 1;
                k += 1;
            }
            if POS[i] > LEN[i] {
                LEN[i] = POS[i];
            }
        }
        n as isize
    }
    #[no_mangle]
    pub extern "C" fn read(fd: i32, buf: *mut u8, n: usize) -> isize {
        let i = (fd - FD0) as usize;
        let mut k = 0;
        unsafe {
            while k < n && POS[i] < LEN[i] && POS[i] < CAP {
                *buf.add(k) = DATA[i][POS[i]];
                POS[i] += 1;
                k += 1;
            }
        }
        k as isize
    }
    #[no_mangle]
    pub extern "C" fn fsync(_fd: i32) -> i32 {
        0
    }
    #[no_mangle]
    pub extern "C" fn close(_fd: i32) -> i32 {
        unsafe { CLOSES += 1 };
        0
    }
    /// make the definitions reachable so that they are part of the goto binary
    pub fn link() {
        let _k1 = close as extern "C" fn(i32) -> i32;
        let _k2 = lseek64 as extern "C" fn(i32, i64, i32) -> i64;
        let _k3 = write as extern "C" fn(i32, *const u8, usize) -> isize;
        let _k4 = read as extern "C" fn(i32, *mut u8, usize) -> isize;
        let _k5 = fsync as extern "C" fn(i32) -> i32;
    }
}
pub fn link_libc() {
    #[cfg(not(test))]
    libc_model::link();
}

fn fidx(f: &File) -> usize {
    (f.as_raw_fd() - FD0) as usize
}
/// stub for `std::fs::File::metadata`: remembers the length for the following `Metadata::len`
pub fn file_metadata_stub(f: &File) -> io::Result<std::fs::Metadata> {
    unsafe {
        META_LEN = LEN[fidx(f)] as u64;
        Ok(std::mem::zeroed())
    }
}
pub fn metadata_len_stub(_m: &std::fs::Metadata) -> u64 {
    unsafe { META_LEN }
}
/// stub for `std::io::copy::<File, File>`: byte loop over the (modelled) read / write
pub fn io_copy_stub<R: ?Sized + Read, W: ?Sized + Write>(r: &mut R, w: &mut W) -> io::Result<u64> {
    let mut n = 0u64;
    let mut b = [0u8; 1];
    loop {
        let k = r.read(&mut b)?;
        if k == 0 {
            break;
        }
        w.write_all(&b)?;
        n += 1;
    }
    Ok(n)
}
// The accessors below have two back ends: the in-memory table (verification, `cfg(not(test))`) and REAL temporary
// files (native replay of a counterexample with `cargo kani playback`, `cfg(test)`: no stub is active there, the
// real `std::fs`, tokio channel and hasher run).
#[cfg(not(test))]
mod backend {
    use super::*;
    pub fn handle(i: usize) -> File {
        unsafe { File::from_raw_fd(FD0 + i as i32) }
    }
    pub fn set_file(i: usize, data: &[u8]) {
        unsafe {
            let mut k = 0;
            while k < data.len() && k < CAP {
                DATA[i][k] = data[k];
                k += 1;
            }
            LEN[i] = data.len();
            POS[i] = 0;
        }
    }
    pub fn truncate(i: usize) {
        unsafe {
            LEN[i] = 0;
            POS[i] = 0;
        }
    }
    pub fn file_len(i: usize) -> usize {
        unsafe { LEN[i] }
    }
    pub fn file_byte(i: usize, k: usize) -> u8 {
        unsafe { DATA[i][k] }
    }
    pub fn file_pos(i: usize) -> usize {
        unsafe { POS[i] }
    }
    pub fn set_pos(i: usize, p: usize) {
        unsafe { POS[i] = p }
    }
    pub fn writes(i: usize) -> usize {
        unsafe { WRITES[i] }
    }
    pub fn take_sent(_ch: &Chans) -> Option<(VariableID, PDU)> {
        take_pdu()
    }
}
#[cfg(test)]
mod backend {
    use super::*;
    use std::io::{Seek, SeekFrom};
    use std::os::unix::fs::FileExt;
    static mut FILES: [Option<File>; NF] = [None, None, None, None];
    static mut SNAP: [Vec<u8>; NF] = [Vec::new(), Vec::new(), Vec::new(), Vec::new()];
    fn file(i: usize) -> &'static mut File {
        unsafe {
            if FILES[i].is_none() {
                let mut p = std::env::temp_dir();
                p.push(format!("cfdp_verif_replay_{}_{}_{:?}", std::process::id(), i, std::thread::current().id()));
                let f = File::options().read(true).write(true).create(true).truncate(true).open(&p).unwrap();
                let _ = std::fs::remove_file(&p);
                FILES[i] = Some(f);
            }
            FILES[i].as_mut().unwrap()
        }
    }
    fn content(i: usize) -> Vec<u8> {
        let f = file(i);
        let n = f.metadata().unwrap().len() as usize;
        let mut v = vec![0u8; n];
        f.read_exact_at(&mut v, 0).unwrap();
        v
    }
    pub fn handle(i: usize) -> File {
        file(i).try_clone().unwrap()
    }
    pub fn set_file(i: usize, data: &[u8]) {
        let f = file(i);
        f.set_len(0).unwrap();
        f.write_all_at(data, 0).unwrap();
        f.seek(SeekFrom::Start(0)).unwrap();
        unsafe { SNAP[i] = data.to_vec() };
    }
    pub fn truncate(i: usize) {
        let f = file(i);
        f.set_len(0).unwrap();
        f.seek(SeekFrom::Start(0)).unwrap();
    }
    pub fn file_len(i: usize) -> usize {
        file(i).metadata().unwrap().len() as usize
    }
    pub fn file_byte(i: usize, k: usize) -> u8 {
        let c = content(i);
        if k < c.len() {
            c[k]
        } else {
            0
        }
    }
    pub fn file_pos(i: usize) -> usize {
        file(i).stream_position().unwrap() as usize
    }
    pub fn set_pos(i: usize, p: usize) {
        file(i).seek(SeekFrom::Start(p as u64)).unwrap();
    }
    /// native replay cannot count write calls: "written" = content differs from what the harness put there
    pub fn writes(i: usize) -> usize {
        if content(i) != unsafe { SNAP[i].clone() } {
            1
        } else {
            0
        }
    }
    pub fn take_sent(ch: &Chans) -> Option<(VariableID, PDU)> {
        ch.rx.borrow_mut().try_recv().ok()
    }
}
pub use backend::{file_byte, file_len, file_pos, handle, set_file, set_pos, take_sent, truncate, writes};
pub fn opens(i: usize) -> usize {
    unsafe { OPENS[i] }
}
/// reference modular checksum of file `i`'s first `n` bytes
pub fn ref_checksum(i: usize, n: usize) -> u32 {
    let mut s: u32 = 0;
    let mut k = 0;
    while k < n {
        s = s.wrapping_add((file_byte(i, k) as u32) << (8 * (3 - (k % 4))));
        k += 1;
    }
    s
}

/// value of the `truncate` flag of an `OpenOptions` (which has no getters). Verification: stub S8 replaces
/// `OpenOptions::truncate` and records the argument (one flag: reset by the `open` that consumes it). Native replay:
/// no stub is active, the flag is read from the Debug rendering.
pub static mut TRUNC_REQUESTED: bool = false;
pub fn truncate_stub(o: &mut OpenOptions, t: bool) -> &mut OpenOptions {
    unsafe { TRUNC_REQUESTED = t };
    o
}
#[cfg(not(test))]
pub fn opt_truncate(_o: &OpenOptions) -> bool {
    unsafe {
        let r = TRUNC_REQUESTED;
        TRUNC_REQUESTED = false;
        r
    }
}
#[cfg(test)]
pub fn opt_truncate(o: &OpenOptions) -> bool {
    format!("{:?}", o).contains("truncate: true")
}

// ------------------------------------------------------------------------------------------------ model FileStore
pub const MAXREQ: usize = 3;
pub static mut REQ_CALLS: usize = 0;
pub static mut REQ_ORDER: [u8; 4] = [0; 4];
pub static mut REQ_OK: [bool; MAXREQ] = [true; MAXREQ];
pub struct ModelFs;
fn unsupported<T>() -> FileStoreResult<T> {
    Err(FileStoreError::Format(std::fmt::Error))
}
fn name_idx(p: &Utf8Path) -> usize {
    let s = p.as_str().as_bytes();
    if s.len() == 1 && s[0] == b's' {
        SRC
    } else {
        DST
    }
}
impl FileStore for ModelFs {
    fn get_native_path<P: AsRef<Utf8Path>>(&self, path: P) -> Utf8PathBuf {
        path.as_ref().to_path_buf()
    }
    fn create_file<P: AsRef<Utf8Path>>(&self, _p: P) -> FileStoreResult<()> {
        unsupported()
    }
    fn delete_file<P: AsRef<Utf8Path>>(&self, _p: P) -> FileStoreResult<()> {
        unsupported()
    }
    fn rename_file<P: AsRef<Utf8Path>, U: AsRef<Utf8Path>>(&self, _f: P, _t: U) -> FileStoreResult<()> {
        unsupported()
    }
    fn append_file<P: AsRef<Utf8Path>, U: AsRef<Utf8Path>>(&self, _f: P, _t: U) -> FileStoreResult<()> {
        unsupported()
    }
    fn replace_file<P: AsRef<Utf8Path>, U: AsRef<Utf8Path>>(&self, _f: P, _t: U) -> FileStoreResult<()> {
        unsupported()
    }
    fn create_directory<P: AsRef<Utf8Path>>(&self, _p: P) -> FileStoreResult<()> {
        unsupported()
    }
    fn remove_directory<P: AsRef<Utf8Path>>(&self, _p: P) -> FileStoreResult<()> {
        unsupported()
    }
    fn list_directory<P: AsRef<Utf8Path>>(&self, _p: P) -> FileStoreResult<String> {
        unsupported()
    }
    fn open<P: AsRef<Utf8Path>>(&self, p: P, o: &mut OpenOptions) -> FileStoreResult<File> {
        let i = name_idx(p.as_ref());
        unsafe {
            OPENS[i] += 1;
            if i == DST && OPEN_DST_FAILS {
                return unsupported();
            }
        }
        // honour the `truncate` option like open(2) does: without it the old content beyond what is written stays
        if opt_truncate(o) {
            truncate(i);
        } else {
            set_pos(i, 0);
        }
        Ok(handle(i))
    }
    fn open_tempfile(&self) -> FileStoreResult<File> {
        unsafe {
            let i = TMP + TEMPS;
            assert!(i < NF, "at most two staging files per harness");
            TEMPS += 1;
            truncate(i);
            OPENS[i] += 1;
            Ok(handle(i))
        }
    }
    fn get_size<P: AsRef<Utf8Path>>(&self, p: P) -> FileStoreResult<u64> {
        Ok(file_len(name_idx(p.as_ref())) as u64)
    }
    /// scripted outcome per request (C13b); the k-th request is identified by the length of its first name
    fn process_request(&self, request: &FileStoreRequest) -> FileStoreResponse {
        let k = request.first_filename.as_str().len();
        let ok = unsafe {
            if REQ_CALLS < 4 {
                REQ_ORDER[REQ_CALLS] = k as u8;
            }
            REQ_CALLS += 1;
            k < MAXREQ && REQ_OK[k]
        };
        FileStoreResponse {
            action_and_status: FileStoreStatus::CreateFile(if ok {
                CreateFileStatus::Successful
            } else {
                CreateFileStatus::NotAllowed
            }),
            first_filename: request.first_filename.clone(),
            second_filename: request.second_filename.clone(),
            filestore_message: vec![],
        }
    }
}

// ------------------------------------------------------------------------------------------------ builders
pub const SRC_ID: u16 = 1;
pub const DST_ID: u16 = 2;
pub const SEQ: u16 = 7;
pub fn config(mode: TransmissionMode) -> TransactionConfig {
    TransactionConfig {
        source_entity_id: VariableID::from(SRC_ID),
        destination_entity_id: VariableID::from(DST_ID),
        transmission_mode: mode,
        sequence_number: VariableID::from(SEQ),
        file_size_flag: FileSizeFlag::Small,
        fault_handler_override: HashMap::new(),
        file_size_segment: 64,
        crc_flag: CRCFlag::NotPresent,
        segment_metadata_flag: SegmentedData::NotPresent,
        max_count: 2,
        inactivity_timeout: 10,
        ack_timeout: 3,
        nak_timeout: 5,
    }
}
pub fn any_mode() -> TransmissionMode {
    if kani::any() {
        TransmissionMode::Acknowledged
    } else {
        TransmissionMode::Unacknowledged
    }
}
pub fn hdr(mode: TransmissionMode, t: PDUType, dir: Direction) -> PDUHeader {
    PDUHeader {
        version: U3::One,
        pdu_type: t,
        direction: dir,
        transmission_mode: mode,
        crc_flag: CRCFlag::NotPresent,
        large_file_flag: FileSizeFlag::Small,
        pdu_data_field_length: 0,
        segmentation_control: SegmentationControl::NotPreserved,
        segment_metadata_flag: SegmentedData::NotPresent,
        source_entity_id: VariableID::from(SRC_ID),
        transaction_sequence_number: VariableID::from(SEQ),
        destination_entity_id: VariableID::from(DST_ID),
    }
}
pub fn directive(mode: TransmissionMode, dir: Direction, op: Operations) -> PDU {
    PDU { header: hdr(mode, PDUType::FileDirective, dir), payload: PDUPayload::Directive(op) }
}
pub fn filedata(mode: TransmissionMode, offset: u64, data: Vec<u8>) -> PDU {
    PDU {
        header: hdr(mode, PDUType::FileData, Direction::ToReceiver),
        payload: PDUPayload::FileData(FileDataPDU::Unsegmented(UnsegmentedFileData { offset, file_data: data })),
    }
}
pub fn metadata(file: bool, size: u64, closure: bool, cks: ChecksumType, reqs: Vec<FileStoreRequest>) -> Metadata {
    Metadata {
        source_filename: if file { Utf8PathBuf::from("s") } else { Utf8PathBuf::new() },
        destination_filename: if file { Utf8PathBuf::from("d") } else { Utf8PathBuf::new() },
        file_size: size,
        filestore_requests: reqs,
        message_to_user: vec![],
        closure_requested: closure,
        checksum_type: cks,
    }
}
pub fn any_condition() -> Condition {
    let k: u8 = kani::any();
    kani::assume(k < 14);
    [
        Condition::NoError,
        Condition::PositiveLimitReached,
        Condition::KeepAliveLimitReached,
        Condition::InvalidTransmissionMode,
        Condition::FileStoreRejection,
        Condition::FileChecksumFailure,
        Condition::FilesizeError,
        Condition::NakLimitReached,
        Condition::InactivityDetected,
        Condition::InvalidFileStructure,
        Condition::CheckLimitReached,
        Condition::UnsupportedChecksumType,
        Condition::SuspendReceived,
        Condition::CancelReceived,
    ][k as usize]
}
pub fn any_action() -> FaultHandlerAction {
    let k: u8 = kani::any();
    kani::assume(k < 4);
    match k {
        0 => FaultHandlerAction::Cancel,
        1 => FaultHandlerAction::Suspend,
        2 => FaultHandlerAction::Ignore,
        _ => FaultHandlerAction::Abandon,
    }
}

/// a counter in an arbitrary (symbolic) state: running or paused, count <= max, started at or before `now`
pub fn any_counter(timeout_s: u64, max: u32, now: Duration) -> Counter {
    let start_s: u64 = kani::any();
    kani::assume(start_s <= now.as_secs());
    let count: u32 = kani::any();
    kani::assume(count <= max);
    Counter::verif_from_parts(cfdp_daemon::verif::CounterParts {
        start_time: Duration::from_secs(start_s),
        timeout: Duration::from_secs(timeout_s),
        max_count: max,
        count,
        occurred: kani::any(),
        paused: kani::any(),
    })
}
pub fn counter(timeout_s: u64, max: u32, start_s: u64, count: u32, occurred: bool, paused: bool) -> Counter {
    Counter::verif_from_parts(cfdp_daemon::verif::CounterParts {
        start_time: Duration::from_secs(start_s),
        timeout: Duration::from_secs(timeout_s),
        max_count: max,
        count,
        occurred,
        paused,
    })
}
pub fn paused_timer(cfg: &TransactionConfig) -> Timer {
    Timer::new(
        cfg.inactivity_timeout,
        cfg.max_count,
        cfg.ack_timeout,
        cfg.max_count,
        cfg.nak_timeout,
        cfg.max_count,
    )
}

/// default parts of a fresh receive transaction (like `RecvTransaction::new`)
pub fn recv_parts(cfg: TransactionConfig, nak: NakProcedure, ch: &Chans) -> RecvParts<ModelFs> {
    let timer = paused_timer(&cfg);
    RecvParts {
        status: TransactionStatus::Undefined,
        config: cfg,
        filestore: Arc::new(ModelFs),
        indication_tx: ch.ind_tx.clone(),
        file_handle: None,
        saved_segments: Segments::new(),
        nak_procedure: nak,
        metadata: None,
        received_file_size: 0,
        header: None,
        condition: Condition::NoError,
        delivery_code: DeliveryCode::Incomplete,
        file_status: FileStatusCode::Unreported,
        filestore_response: Vec::new(),
        timer,
        checksum: None,
        state: TransactionState::Active,
        recv_state: VRecvState::ReceiveData,
        file_size: None,
        ack: None,
        finished: None,
        prompt: None,
        naks: VecDeque::new(),
        nak_received_file_size: 0,
        delayed_nack_timers: Vec::new(),
    }
}
/// default parts of a fresh send transaction (like `SendTransaction::new`)
pub fn send_parts(cfg: TransactionConfig, md: Metadata, ch: &Chans) -> SendParts<ModelFs> {
    let timer = paused_timer(&cfg);
    SendParts {
        status: TransactionStatus::Undefined,
        config: cfg,
        filestore: Arc::new(ModelFs),
        file_handle: None,
        naks: VecDeque::new(),
        metadata: md,
        sent_file_size: 0,
        received_file_size: 0,
        header: None,
        condition: Condition::NoError,
        delivery_code: DeliveryCode::Incomplete,
        file_status: FileStatusCode::Unreported,
        timer,
        checksum: None,
        state: TransactionState::Active,
        send_state: VSendState::SendMetadata,
        eof: None,
        ack: None,
        prompt: None,
        indication_tx: ch.ind_tx.clone(),
        send_eof_indication: true,
    }
}
pub fn recv_send(t: &mut RecvTransaction<ModelFs>, ch: &Chans) -> Option<(VariableID, PDU)> {
    verif::recv_send_pdu(t, ch.tx.try_reserve().unwrap()).unwrap();
    take_sent(ch)
}
pub fn send_send(t: &mut SendTransaction<ModelFs>, ch: &Chans) -> Option<(VariableID, PDU)> {
    verif::send_send_pdu(t, ch.tx.try_reserve().unwrap()).unwrap();
    take_sent(ch)
}

/// CONCRETE held-segment shapes of a 4-byte file (file lengths must be concrete for the checksum / copy code):
/// 0: nothing; 1: (0,4) complete; 2: (0,2) tail missing; 3: (2,4) head missing; 4: (1,3); 5: (0,1),(3,4)
pub const SHAPES: usize = 6;
pub fn held_shape(shape: u8) -> (Segments, [u64; 4], usize) {
    let (b, k): ([u64; 4], usize) = match shape {
        0 => ([0, 0, 0, 0], 0),
        1 => ([0, 4, 0, 0], 1),
        2 => ([0, 2, 0, 0], 1),
        3 => ([2, 4, 0, 0], 1),
        4 => ([1, 3, 0, 0], 1),
        _ => ([0, 1, 3, 4], 2),
    };
    let mut v = Vec::new();
    let mut i = 0;
    while i < k {
        v.push((b[2 * i], b[2 * i + 1]));
        i += 1;
    }
    (Segments::verif_from(v), b, k)
}
/// put a receiver's parts into the state "holds the segments of `shape` of a 4-byte file, staged in TMP with
/// symbolic content" (holes read as arbitrary bytes: over-approximates a sparse file)
pub fn stage_shape(p: &mut RecvParts<ModelFs>, shape: u8) -> ([u64; 4], usize) {
    let (s, b, k) = held_shape(shape);
    let content: [u8; CAP] = kani::any();
    if k > 0 {
        let end = b[2 * k - 1] as usize;
        set_file(TMP, &content[..end]);
        unsafe { TEMPS = 1 };
        p.file_handle = Some(handle(TMP));
    }
    let mut held = 0;
    let mut i = 0;
    while i < k {
        held += b[2 * i + 1] - b[2 * i];
        i += 1;
    }
    set_field(&mut p.saved_segments, s);
    p.received_file_size = held;
    p.nak_received_file_size = held;
    (b, k)
}

/// overwrite a field WITHOUT dropping the old value: drop glue of heap-owning values under symbolic control trips
/// checks of Kani's allocator model (`__rust_dealloc`) that say nothing about the property
pub fn set_field<T>(slot: &mut T, v: T) {
    std::mem::forget(std::mem::replace(slot, v));
}

/// segment list with k strictly ascending, non-adjacent symbolic segments below `limit`
pub fn any_segments(k: usize, limit: u64) -> (Segments, [u64; 4]) {
    let mut b = [0u64; 4];
    let mut v = Vec::with_capacity(4);
    let mut prev: u64 = 0;
    let mut i = 0;
    while i < k {
        let lo: u64 = kani::any();
        let hi: u64 = kani::any();
        kani::assume(lo < hi && hi <= limit);
        if i > 0 {
            kani::assume(lo > prev);
        }
        v.push((lo, hi));
        b[2 * i] = lo;
        b[2 * i + 1] = hi;
        prev = hi;
        i += 1;
    }
    // built directly (hook): every list satisfying the representation invariant with k entries
    (Segments::verif_from(v), b)
}
