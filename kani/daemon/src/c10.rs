//! C10 — cancel ends the transaction at the entity within its limits and never exposes a partial file
//! (one-step obligations at each entity; that the PEER ends too is a two-entity statement and is not decided).
use crate::env::*;
use cfdp_core::{daemon::NakProcedure, filestore::ChecksumType, pdu::*, transaction::TransactionState};
use cfdp_daemon::{
    transaction::{RecvTransaction, SendTransaction},
    verif::{self, VRecvState, VSendState},
};
use std::{mem::forget, time::Duration};

const NOW: u64 = 1000;
const A: TransmissionMode = TransmissionMode::Acknowledged;

//# funcs=SendTransaction::cancel,_cancel,prepare_eof,get_checksum,send_pdu(Cancelled),send_eof; bound=cancel before anything was sent, 3-byte file (content symbolic); stubs=S1,S2,S3,S5
fn send_cancel(ph: u8) {
    let ch = chans();
    link_libc();
    verif::set_now(Duration::from_secs(NOW));
    let content: [u8; CAP] = kani::any();
    set_file(SRC, &content[..3]);
    let mut p = send_parts(config(A), metadata(true, 3, false, ChecksumType::Modular, vec![]), &ch);
    match ph {
        0 => p.send_state = VSendState::SendMetadata,
        1 => {
            p.send_state = VSendState::SendData;
            p.file_handle = Some(handle(SRC));
            set_pos(SRC, 2);
            p.sent_file_size = 2;
        }
        _ => {
            p.send_state = VSendState::SendEof;
            p.checksum = Some(ref_checksum(SRC, 3));
            p.eof = Some((EndOfFile { condition: Condition::NoError, checksum: ref_checksum(SRC, 3), file_size: 3, fault_location: None }, false));
            p.timer.ack = counter(3, 2, NOW - 1, 1, false, false);
        }
    }
    let mut t = SendTransaction::verif_from_parts(p);
    t.cancel().unwrap();
    assert!(t.verif_send_state() == VSendState::Cancelled && t.verif_condition() == Condition::CancelReceived, "cancel takes effect at once");
    assert!(verif::send_state(&t) == TransactionState::Active);
    assert!(verif::send_has_pdu_to_send(&t), "EOF(cancel) is due");
    let out6 = send_send(&mut t, &ch);
    match &out6 {
        Some((dest, PDU { payload: PDUPayload::Directive(Operations::EoF(e)), header })) => {
            assert!(*dest == VariableID::from(DST_ID) && header.direction == Direction::ToReceiver);
            assert!(e.condition == Condition::CancelReceived, "EOF carries the cancel condition");
            assert!(e.fault_location == Some(VariableID::from(SRC_ID)), "fault location = the cancelling entity");
            assert!(e.file_size == 3 && e.checksum == ref_checksum(SRC, 3));
        }
        _ => assert!(false, "EOF(cancel) expected"),
    }
    forget(out6);
    assert!(!verif::send_has_pdu_to_send(&t), "sent once");
    let a = t.verif_timer().ack.verif_parts();
    assert!(!a.paused && a.start_time == Duration::from_secs(NOW), "ACK timer guards the handshake");
    assert!(verif::send_until_timeout(&t) <= Duration::from_secs(3), "the wait is bounded");
    kani::cover!(true, "end");
    forget(t);
    forget(ch);
}
th!(c10_q_send_cancel_metadata_phase, 12, { send_cancel(0) });
//# funcs=SendTransaction::cancel,_cancel,prepare_eof,get_checksum,send_eof; bound=cancel during the first pass (cursor 2 of a 3-byte file); stubs=S1,S2,S3,S5
th!(c10_q_send_cancel_data_phase, 12, { send_cancel(1) });
//# funcs=SendTransaction::cancel,_cancel,prepare_eof,send_eof; bound=cancel while waiting for the ACK of the EOF; stubs=S1,S2,S3,S5
th!(c10_q_send_cancel_eof_phase, 12, { send_cancel(2) });

//# funcs=SendTransaction::handle_timeout(Cancelled),abandon,send_eof; bound=phase Cancelled, ack count 0..=2, age <= 4 timeouts; stubs=S1,S2,S3
th!(c10_q_send_cancelled_timeout, 8, {
    let ch = chans();
    verif::set_now(Duration::from_secs(NOW));
    let mut p = send_parts(config(A), metadata(false, 0, false, ChecksumType::Modular, vec![]), &ch);
    p.send_state = VSendState::Cancelled;
    p.condition = Condition::CancelReceived;
    p.checksum = Some(0);
    p.eof = Some((EndOfFile { condition: Condition::CancelReceived, checksum: 0, file_size: 0, fault_location: Some(VariableID::from(SRC_ID)) }, false));
    let count: u32 = kani::any();
    kani::assume(count <= 2);
    let age: u64 = kani::any();
    kani::assume(age <= 12);
    p.timer.ack = counter(3, 2, NOW - age, count, false, false);
    let mut t = SendTransaction::verif_from_parts(p);
    t.handle_timeout().unwrap();
    let c = count as u64 + age / 3;
    if age >= 3 && c >= 2 {
        assert!(verif::send_state(&t) == TransactionState::Terminated && verif::ind_count_kind(verif::K_ABANDON) == 1, "limit reached: the cancelled transaction ends");
    } else if age >= 3 {
        assert!(verif::send_state(&t) == TransactionState::Active);
        assert!(matches!(t.verif_eof(), Some((_, true))), "EOF(cancel) re-armed on expiry");
    } else {
        assert!(verif::send_state(&t) == TransactionState::Active && matches!(t.verif_eof(), Some((_, false))));
    }
    kani::cover!(age >= 3 && c >= 2, "abandon");
    kani::cover!(age >= 3 && c < 2, "retransmit");
    forget(t);
    forget(ch);
});

/// receiver in the data phase holding the segments of a concrete shape of a 4-byte file, staged in TMP
fn receiver(shape: u8, ch: &Chans) -> (RecvTransaction<ModelFs>, [u64; 4]) {
    link_libc();
    verif::set_now(Duration::from_secs(NOW));
    let mut p = recv_parts(config(A), NakProcedure::Deferred(Duration::ZERO), ch);
    p.metadata = Some(metadata(true, 4, false, ChecksumType::Modular, vec![]));
    let (b, _k) = stage_shape(&mut p, shape);
    p.timer.inactivity = counter(10, 2, NOW - 1, 0, false, false);
    (RecvTransaction::verif_from_parts(p), b)
}
fn dst_untouched() {
    assert!(opens(DST) == 0 && writes(DST) == 0, "nothing appears under the destination name");
}

//# funcs=RecvTransaction::cancel,_cancel,prepare_finished,send_pdu(Cancelled),send_finished; bound=cancel in the data phase (0-1 held segment of a 4-byte file, EOF received or not); stubs=S1,S2,S3,S5
th!(c10_q_recv_cancel, 10, {
    let ch = chans();
    let (t0, _b) = receiver(2, &ch);
    let mut p = t0.verif_into_parts();
    if kani::any() {
        p.file_size = Some(4);
        p.checksum = Some(kani::any());
        p.timer.nak = counter(5, 2, NOW - 1, 0, false, false);
    }
    let mut t = RecvTransaction::verif_from_parts(p);
    t.cancel().unwrap();
    assert!(t.verif_recv_state() == VRecvState::Cancelled && t.verif_condition() == Condition::CancelReceived, "cancel takes effect at once");
    let (codes, _) = verif::ind_last_kind(verif::K_FINISHED).unwrap();
    assert!(codes >> 8 == Condition::CancelReceived as u64, "the user is told the cancel condition");
    assert!((codes >> 4) & 0xF == DeliveryCode::Incomplete as u64, "not reported as delivered");
    assert!(t.verif_timer().nak.verif_parts().paused, "no more NAKs");
    assert!(verif::recv_has_pdu_to_send(&t), "Finished(cancel) is due");
    let out7 = recv_send(&mut t, &ch);
    match &out7 {
        Some((dest, PDU { payload: PDUPayload::Directive(Operations::Finished(f)), .. })) => {
            assert!(*dest == VariableID::from(SRC_ID));
            assert!(f.condition == Condition::CancelReceived && f.delivery_code == DeliveryCode::Incomplete, "Finished carries the cancel condition");
        }
        _ => assert!(false, "Finished(cancel) expected"),
    }
    forget(out7);
    let a = t.verif_timer().ack.verif_parts();
    assert!(!a.paused && a.start_time == Duration::from_secs(NOW), "ACK timer guards the handshake");
    dst_untouched();
    kani::cover!(true, "end");
    forget(t);
    forget(ch);
});

fn cancelled_receiver(ch: &Chans, complete: bool) -> RecvTransaction<ModelFs> {
    let (t0, _b) = receiver(if complete { 1 } else { 0 }, ch);
    let mut p = t0.verif_into_parts();
    p.recv_state = VRecvState::Cancelled;
    p.condition = Condition::CancelReceived;
    p.finished = Some((
        Finished {
            condition: Condition::CancelReceived,
            delivery_code: DeliveryCode::Incomplete,
            file_status: FileStatusCode::Unreported,
            filestore_response: vec![],
            fault_location: None,
        },
        false,
    ));
    p.timer.nak = counter(5, 2, NOW - 1, 0, false, true);
    p.timer.ack = counter(3, 2, NOW - 1, 0, false, false);
    RecvTransaction::verif_from_parts(p)
}

//# funcs=RecvTransaction::handle_timeout(Cancelled),abandon,process_pdu(Ack Finished),shutdown; bound=phase Cancelled, ack count 0..=2, age <= 4 timeouts, or the matching ACK arrives; stubs=S1,S2,S3,S5
th!(c10_q_recv_cancelled_ends, 10, {
    let ch = chans();
    let t0 = cancelled_receiver(&ch, false);
    let mut p = t0.verif_into_parts();
    let count: u32 = kani::any();
    kani::assume(count <= 2);
    let age: u64 = kani::any();
    kani::assume(age <= 12);
    p.timer.ack = counter(3, 2, NOW - age, count, false, false);
    p.timer.inactivity = counter(10, 2, NOW, 0, false, false);
    let mut t = RecvTransaction::verif_from_parts(p);
    if kani::any() {
        t.handle_timeout().unwrap();
        let c = count as u64 + age / 3;
        if c >= 2 {
            assert!(verif::recv_state(&t) == TransactionState::Terminated && verif::ind_count_kind(verif::K_ABANDON) == 1, "limit reached: the cancelled transaction ends");
        } else if age >= 3 {
            assert!(matches!(t.verif_finished(), Some((_, true))), "Finished(cancel) re-armed on expiry");
        }
        kani::cover!(c >= 2, "abandon");
    } else {
        t.process_pdu(directive(A, Direction::ToReceiver, Operations::Ack(PositiveAcknowledgePDU {
            directive: PDUDirective::Finished,
            directive_subtype_code: ACKSubDirective::Finished,
            condition: Condition::CancelReceived,
            transaction_status: TransactionStatus::Active,
        })))
        .unwrap();
        assert!(verif::recv_state(&t) == TransactionState::Terminated, "the matching ACK ends the transaction");
    }
    dst_untouched();
    forget(t);
    forget(ch);
});

//# funcs=RecvTransaction::process_pdu(EoF with error condition),_cancel; bound=data phase, 1 held segment, any error condition; stubs=S1,S2,S3,S5
th!(c10_q_recv_eof_error_cancels, 10, {
    let ch = chans();
    let (mut t, _b) = receiver(2, &ch);
    let c = any_condition();
    kani::assume(c != Condition::NoError);
    let eof = EndOfFile { condition: c, checksum: kani::any(), file_size: kani::any(), fault_location: Some(VariableID::from(SRC_ID)) };
    t.process_pdu(directive(A, Direction::ToReceiver, Operations::EoF(eof))).unwrap();
    assert!(t.verif_recv_state() == VRecvState::Cancelled && t.verif_condition() == c, "a cancelling EOF cancels the receiver with that condition");
    match t.verif_finished() {
        Some((f, true)) => assert!(f.condition == c && f.delivery_code == DeliveryCode::Incomplete),
        _ => assert!(false, "Finished armed"),
    }
    dst_untouched();
    kani::cover!(c == Condition::CancelReceived, "cancel received");
    forget(t);
    forget(ch);
});

//# funcs=RecvTransaction::process_pdu(EoF|FileData|Metadata) in phase Cancelled,check_finished,finalize_receive; bound=cancelled receiver holding the complete 4-byte file (only EOF was outstanding); a late EOF(NoError) with the right checksum arrives; stubs=S1,S2,S3,S5
fn stays_cancelled(which: u8) {
    let ch = chans();
    let mut t = cancelled_receiver(&ch, true);
    if which == 0 {
        let eof = EndOfFile { condition: Condition::NoError, checksum: ref_checksum(TMP, 4), file_size: 4, fault_location: None };
        let r = t.process_pdu(directive(A, Direction::ToReceiver, Operations::EoF(eof)));
        forget(r);
    } else {
        let off: u64 = 1;
        let r = t.process_pdu(filedata(A, off, vec![file_byte(TMP, off as usize)]));
        forget(r);
    }
    assert!(t.verif_recv_state() == VRecvState::Cancelled, "a cancelled transfer stays cancelled");
    assert!(!(t.verif_delivery_code() == DeliveryCode::Complete), "and is not reported as delivered afterwards");
    dst_untouched();
    kani::cover!(true, "end");
    forget(t);
    forget(ch);
}
th!(c10_q_recv_cancelled_late_eof, 12, { stays_cancelled(0) });
//# funcs=RecvTransaction::process_pdu(FileData) in phase Cancelled,check_finished; bound=cancelled receiver holding the complete file, a duplicate of byte 1 arrives; stubs=S1,S2,S3,S5
th!(c10_q_recv_cancelled_late_data, 12, { stays_cancelled(1) });
