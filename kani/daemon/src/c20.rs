//! C20 — progress figures reported to users and peers are truthful.
use crate::env::*;
use cfdp_core::{daemon::NakProcedure, filestore::ChecksumType, pdu::*, transaction::TransactionState};
use cfdp_daemon::{
    transaction::{RecvTransaction, SendTransaction},
    verif::{self, VRecvState, VSendState},
};
use std::{mem::forget, time::Duration};

fn overlap(x: u64, y: u64, lo: u64, hi: u64) -> u64 {
    let a = if x > lo { x } else { lo };
    let c = if y < hi { y } else { hi };
    if a < c { c - a } else { 0 }
}

/// receiver holding nothing or the concrete segment (4,8); progress counter == bytes held (the invariant)
fn recv_with_segment(k: usize, mode: TransmissionMode, ch: &Chans) -> (RecvTransaction<ModelFs>, u64) {
    link_libc();
    verif::set_now(Duration::from_secs(100));
    let mut p = recv_parts(config(mode), NakProcedure::Deferred(Duration::ZERO), ch);
    p.metadata = Some(metadata(true, 0, false, ChecksumType::Modular, vec![]));
    let held = if k == 1 {
        p.saved_segments.merge((4, 8));
        4
    } else {
        0
    };
    p.received_file_size = held;
    p.nak_received_file_size = held;
    p.timer.inactivity = counter(10, 2, 100, 0, false, false);
    (RecvTransaction::verif_from_parts(p), held)
}

fn recv_data_step(k: usize, l: usize, mode: TransmissionMode) {
    let ch = chans();
    let (mut t, held) = recv_with_segment(k, mode, &ch);
    let off: u64 = kani::any();
    kani::assume(off < (1 << 40));
    let data: [u8; 3] = kani::any();
    t.process_pdu(filedata(mode, off, data[..l].to_vec())).unwrap();
    let new = (l as u64) - if k == 1 { overlap(off, off + l as u64, 4, 8) } else { 0 };
    assert!(t.verif_progress() == held + new, "progress == number of distinct bytes held");
    assert!(t.verif_progress() >= held, "progress never decreases");
    let fs = verif::ind_last_kind(verif::K_FILE_SEGMENT);
    assert!(fs == Some((off, l as u64)), "file-segment indication names the received range");
    kani::cover!(true, "end");
    kani::cover!(k == 1 && new == 0, "duplicate");
    kani::cover!(k == 1 && new > 0 && new < l as u64, "partial overlap");
    forget(t);
    forget(ch);
}
//# funcs=RecvTransaction::process_pdu(FileData),store_file_data,Segments::merge; bound=held (4,8), 3 new bytes at any offset < 2^40 (before / overlapping / inside / after), acknowledged mode; stubs=S1,S2,S3,S5
th!(c20_t_recv_data_progress_k1, 8, { recv_data_step(1, 3, TransmissionMode::Acknowledged) });
fn recv_k2_step(off: u64) {
    let ch = chans();
    link_libc();
    verif::set_now(Duration::from_secs(100));
    let mut p = recv_parts(config(TransmissionMode::Acknowledged), NakProcedure::Deferred(Duration::ZERO), &ch);
    p.metadata = Some(metadata(true, 0, false, ChecksumType::Modular, vec![]));
    p.saved_segments.merge((0, 2));
    p.saved_segments.merge((4, 6));
    p.received_file_size = 4;
    p.nak_received_file_size = 4;
    p.timer.inactivity = counter(10, 2, 100, 0, false, false);
    let mut t = RecvTransaction::verif_from_parts(p);
    let data: [u8; 5] = kani::any();
    t.process_pdu(filedata(TransmissionMode::Acknowledged, off, data.to_vec())).unwrap();
    let new = 5 - overlap(off, off + 5, 0, 2) - overlap(off, off + 5, 4, 6);
    assert!(t.verif_progress() == 4 + new, "progress == number of distinct bytes held");
    forget(t);
    forget(ch);
}
//# funcs=RecvTransaction::process_pdu(FileData),store_file_data,Segments::merge,segments::merge; bound=held (0,2) and (4,6); 5 bytes (content symbolic) retransmitted from offset 0 (the start of a held segment, swallowing the next one) and from offset 1; the exactness of merge for all offsets is C09; stubs=S1,S2,S3,S5
th!(c20_q_recv_data_progress_k2, 8, {
    recv_k2_step(0);
    kani::cover!(true, "end");
});
//# funcs=RecvTransaction::process_pdu(FileData),Segments::merge; bound=held (0,2),(4,6); 5 bytes from offset 1; stubs=S1,S2,S3,S5
th!(c20_t_recv_data_progress_k2_off1, 8, {
    recv_k2_step(1);
    kani::cover!(true, "end");
});
//# funcs=RecvTransaction::process_pdu(FileData),Segments::merge; bound=held (0,2),(4,6); 5 bytes from offset 4; stubs=S1,S2,S3,S5
th!(c20_t_recv_data_progress_k2_off4, 8, {
    recv_k2_step(4);
    kani::cover!(true, "end");
});
//# funcs=RecvTransaction::process_pdu(FileData),Segments::merge; bound=held (0,2),(4,6); 5 bytes from offset 7; stubs=S1,S2,S3,S5
th!(c20_t_recv_data_progress_k2_off7, 8, {
    recv_k2_step(7);
    kani::cover!(true, "end");
});
//# funcs=RecvTransaction::process_pdu(FileData),store_file_data,Segments::merge; bound=nothing held, 1 new byte at any offset < 2^40; stubs=S1,S2,S3,S5; nocover=duplicate|partial overlap
th!(c20_q_recv_data_progress_k0, 8, { recv_data_step(0, 1, TransmissionMode::Acknowledged) });
//# funcs=RecvTransaction::process_pdu(FileData) unacknowledged mode; bound=held (4,8), 2 new bytes anywhere; stubs=S1,S2,S3,S5
th!(c20_t_recv_data_progress_unack, 8, { recv_data_step(1, 2, TransmissionMode::Unacknowledged) });

/// receiver whose byte counter has the symbolic value r (segments irrelevant for the figures that leave)
fn recv_with_counter(ch: &Chans) -> (RecvTransaction<ModelFs>, u64) {
    verif::set_now(Duration::from_secs(100));
    let mut p = recv_parts(config(TransmissionMode::Acknowledged), NakProcedure::Deferred(Duration::ZERO), ch);
    p.metadata = Some(metadata(true, 0, false, ChecksumType::Modular, vec![]));
    let r: u64 = kani::any();
    kani::assume(r < (1 << 32));
    p.received_file_size = r;
    p.nak_received_file_size = r;
    p.timer.inactivity = counter(10, 2, 100, 0, false, false);
    (RecvTransaction::verif_from_parts(p), r)
}
//# funcs=RecvTransaction::send_pdu,answer_prompt(KeepAlive),get_progress; bound=byte counter symbolic < 2^32: the keep-alive PDU carries it; stubs=S1,S2,S3
th!(c20_q_recv_keepalive_figure, 8, {
    let ch = chans();
    let (t, r) = recv_with_counter(&ch);
    // a keep-alive prompt is pending (set directly: the prompt variant must be concrete for the send step)
    let mut p = t.verif_into_parts();
    p.prompt = Some(PromptPDU { nak_or_keep_alive: NakOrKeepAlive::KeepAlive });
    let mut t = RecvTransaction::verif_from_parts(p);
    assert!(verif::recv_has_pdu_to_send(&t));
    let out = recv_send(&mut t, &ch);
    match &out {
        Some((_, PDU { payload: PDUPayload::Directive(Operations::KeepAlive(k)), .. })) => {
            assert!(k.progress == r, "keep-alive progress == bytes held")
        }
        _ => assert!(false, "KeepAlive expected"),
    }
    forget(out);
    kani::cover!(true, "end");
    forget(t);
    forget(ch);
});
//# funcs=RecvTransaction::suspend,resume,abandon,get_progress; bound=byte counter symbolic: resumed and abandon indications carry it; stubs=S1,S2,S3
th!(c20_q_recv_indication_figures, 8, {
    let ch = chans();
    let (mut t, r) = recv_with_counter(&ch);
    if kani::any() {
        t.suspend().unwrap();
        t.resume().unwrap();
        assert!(verif::ind_last_kind(verif::K_RESUMED) == Some((r, 0)), "resumed indication progress == bytes held");
    } else {
        t.abandon();
        assert!(verif::ind_last_kind(verif::K_ABANDON).unwrap().1 == r, "abandon indication progress == bytes held");
    }
    kani::cover!(true, "end");
    forget(t);
    forget(ch);
});

/// sender in the first pass over a file of `l` bytes (content symbolic), cursor at `c`, segment size `s`
fn sender_first_pass(l: usize, s: u16, c: usize, ch: &Chans) -> (SendTransaction<ModelFs>, usize) {
    link_libc();
    verif::set_now(Duration::from_secs(100));
    let content: [u8; CAP] = kani::any();
    set_file(SRC, &content[..l]);
    let mut cfg = config(TransmissionMode::Acknowledged);
    cfg.file_size_segment = s;
    let mut p = send_parts(cfg, metadata(true, l as u64, false, ChecksumType::Modular, vec![]), ch);
    p.send_state = VSendState::SendData;
    // first pass tiles in order: progress so far == cursor
    p.sent_file_size = c as u64;
    p.file_handle = Some(handle(SRC));
    set_pos(SRC, c);
    p.header = None;
    (SendTransaction::verif_from_parts(p), c)
}
fn send_progress_step(l: usize, s: u16, c: usize) {
    let ch = chans();
    let (mut t, c) = sender_first_pass(l, s, c, &ch);
    let pdu = send_send(&mut t, &ch);
    let want_len = if l - c < s as usize { l - c } else { s as usize };
    match &pdu {
        Some((_, PDU { payload: PDUPayload::FileData(FileDataPDU::Unsegmented(d)), .. })) => {
            assert!(d.offset == c as u64 && d.file_data.len() == want_len, "segment at the cursor, capped by segment size and EOF");
        }
        _ => assert!(false, "file data expected"),
    }
    forget(pdu);
    let prog = t.verif_progress();
    assert!(prog == (c + want_len) as u64, "sender progress == highest offset transmitted");
    assert!(prog <= l as u64, "progress never exceeds the file size");
    assert!(prog >= c as u64, "progress never decreases");
    kani::cover!(want_len < s as usize, "short last segment");
    kani::cover!(want_len == s as usize, "full segment");
    forget(t);
    forget(ch);
}
// cursor, file length and segment size are concrete per instance (they decide buffer lengths), the content is symbolic
//# funcs=SendTransaction::send_pdu(SendData),send_file_segment,get_file_segment; bound=5-byte file, segment size 2, cursor 0 (first segment); stubs=S1,S2,S3,S5; nocover=short last segment
th!(c20_q_send_progress_first, 12, { send_progress_step(5, 2, 0) });
//# funcs=SendTransaction::send_pdu(SendData),get_file_segment,prepare_eof; bound=5-byte file, segment size 2, cursor 4 (short last segment); stubs=S1,S2,S3,S5; nocover=full segment
th!(c20_q_send_progress_last, 12, { send_progress_step(5, 2, 4) });
//# funcs=SendTransaction::send_pdu(SendData),get_file_segment; bound=empty file, segment size 4; stubs=S1,S2,S3,S5; nocover=full segment
th!(c20_q_send_progress_empty, 12, { send_progress_step(0, 4, 0) });
//# funcs=SendTransaction::send_pdu(SendData),get_file_segment; bound=5-byte file, segment size 2, cursor 2 (middle segment); stubs=S1,S2,S3,S5; nocover=short last segment
th!(c20_t_send_progress_middle, 12, { send_progress_step(5, 2, 2) });
//# funcs=SendTransaction::send_pdu(SendData),get_file_segment; bound=3-byte file, segment size 4 (single short segment); stubs=S1,S2,S3,S5; nocover=full segment
th!(c20_t_send_progress_l3_s4, 12, { send_progress_step(3, 4, 0) });
