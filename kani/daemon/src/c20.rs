//! C20 — progress figures reported to users and peers are truthful.
use crate::env::*;
use cfdp_core::{daemon::NakProcedure, filestore::ChecksumType, pdu::*, transaction::TransactionState};
use cfdp_daemon::{
    transaction::{RecvTransaction, SendTransaction},
    verif::{self, VRecvState, VSendState},
};
use std::{mem::forget, time::Duration};

fn overlap(x: u64, y: u64, lo: u64, hi: u64) -> u64 {
    let a = if x > lo { x } else { lo };
    let c = if y < hi { y } else { hi };
    if a < c { c - a } else { 0 }
}

/// receiver holding k (0 or 1) symbolic segment(s); progress counter == bytes held (the invariant)
fn recv_with_segments(k: usize, mode: TransmissionMode, ch: &Chans) -> (RecvTransaction<ModelFs>, [u64; 4], u64) {
    link_libc();
    verif::set_now(Duration::from_secs(100));
    let mut p = recv_parts(config(mode), NakProcedure::Deferred(Duration::ZERO), ch);
    p.metadata = Some(metadata(true, 0, false, ChecksumType::Modular, vec![]));
    let (s, b) = any_segments(k, 1 << 40);
    p.saved_segments = s;
    let held = if k == 1 { b[1] - b[0] } else { 0 };
    p.received_file_size = held;
    p.nak_received_file_size = held;
    p.timer.inactivity = counter(10, 2, 100, 0, false, false);
    (RecvTransaction::verif_from_parts(p), b, held)
}

fn recv_data_step(k: usize, l: usize, mode: TransmissionMode) {
    let ch = chans();
    let (mut t, b, held) = recv_with_segments(k, mode, &ch);
    let off: u64 = kani::any();
    kani::assume(off < (1 << 40));
    let data: [u8; 3] = kani::any();
    t.process_pdu(filedata(mode, off, data[..l].to_vec())).unwrap();
    let new = (l as u64) - if k == 1 { overlap(off, off + l as u64, b[0], b[1]) } else { 0 };
    assert!(t.verif_progress() == held + new, "progress == number of distinct bytes held");
    assert!(t.verif_progress() >= held, "progress never decreases");
    let fs = verif::ind_last_kind(verif::K_FILE_SEGMENT);
    assert!(fs == Some((off, l as u64)), "file-segment indication names the received range");
    kani::cover!(k == 1 && new == 0, "duplicate");
    kani::cover!(k == 1 && new > 0 && new < l as u64, "partial overlap");
    forget(t);
    forget(ch);
}
//# funcs=RecvTransaction::process_pdu(FileData),store_file_data,Segments::merge; bound=0 or 1 held segment (symbolic, < 2^40), new data of 1 or 3 bytes at any offset < 2^40, acknowledged mode; stubs=S1,S2,S3,S5
th!(c20_q_recv_data_progress, 8, {
    if kani::any() {
        recv_data_step(1, 3, TransmissionMode::Acknowledged)
    } else {
        recv_data_step(0, 1, TransmissionMode::Acknowledged)
    }
});
//# funcs=RecvTransaction::process_pdu(FileData) unacknowledged mode; bound=as above; stubs=S1,S2,S3,S5
th!(c20_t_recv_data_progress_unack, 8, { recv_data_step(1, 2, TransmissionMode::Unacknowledged) });

//# funcs=RecvTransaction::answer_prompt(KeepAlive),get_progress,resume,abandon; bound=1 held segment symbolic; every figure that leaves the entity equals the byte count; stubs=S1,S2,S3
th!(c20_q_recv_reported_figures, 8, {
    let ch = chans();
    let (mut t, _b, held) = recv_with_segments(1, TransmissionMode::Acknowledged, &ch);
    let which: u8 = kani::any();
    kani::assume(which < 3);
    if which == 0 {
        t.process_pdu(directive(
            TransmissionMode::Acknowledged,
            Direction::ToReceiver,
            Operations::Prompt(PromptPDU { nak_or_keep_alive: NakOrKeepAlive::KeepAlive }),
        ))
        .unwrap();
        assert!(verif::recv_has_pdu_to_send(&t));
        let out11 = recv_send(&mut t, &ch);
        match &out11 {
            Some((_, PDU { payload: PDUPayload::Directive(Operations::KeepAlive(k)), .. })) => {
                assert!(k.progress == held, "keep-alive progress == bytes held")
            }
            _ => assert!(false, "KeepAlive expected"),
        }
        forget(out11);
    } else if which == 1 {
        t.suspend().unwrap();
        t.resume().unwrap();
        assert!(verif::ind_last_kind(verif::K_RESUMED) == Some((held, 0)), "resumed indication progress == bytes held");
    } else {
        t.abandon();
        assert!(verif::ind_last_kind(verif::K_ABANDON).unwrap().1 == held, "abandon indication progress == bytes held");
    }
    kani::cover!(which == 0, "keepalive");
    kani::cover!(which == 2, "abandon");
    forget(t);
    forget(ch);
});

/// sender in the first pass over a file of `l` bytes (content symbolic), cursor at `c`, segment size `s`
fn sender_first_pass(l: usize, s: u16, ch: &Chans) -> (SendTransaction<ModelFs>, usize) {
    link_libc();
    verif::set_now(Duration::from_secs(100));
    let content: [u8; CAP] = kani::any();
    set_file(SRC, &content[..l]);
    let mut cfg = config(TransmissionMode::Acknowledged);
    cfg.file_size_segment = s;
    let mut p = send_parts(cfg, metadata(true, l as u64, false, ChecksumType::Modular, vec![]), ch);
    p.send_state = VSendState::SendData;
    let c: usize = kani::any();
    kani::assume(c <= l && (c < l || l == 0));
    // first pass tiles in order: progress so far == cursor
    p.sent_file_size = c as u64;
    p.file_handle = Some(handle(SRC));
    set_pos(SRC, c);
    p.header = None;
    (SendTransaction::verif_from_parts(p), c)
}
fn send_progress_step(l: usize, s: u16) {
    let ch = chans();
    let (mut t, c) = sender_first_pass(l, s, &ch);
    let pdu = send_send(&mut t, &ch);
    let want_len = if l - c < s as usize { l - c } else { s as usize };
    match &pdu {
        Some((_, PDU { payload: PDUPayload::FileData(FileDataPDU::Unsegmented(d)), .. })) => {
            assert!(d.offset == c as u64 && d.file_data.len() == want_len, "segment at the cursor, capped by segment size and EOF");
        }
        _ => assert!(false, "file data expected"),
    }
    forget(pdu);
    let prog = t.verif_progress();
    assert!(prog == (c + want_len) as u64, "sender progress == highest offset transmitted");
    assert!(prog <= l as u64, "progress never exceeds the file size");
    assert!(prog >= c as u64, "progress never decreases");
    kani::cover!(want_len < s as usize, "short last segment");
    kani::cover!(want_len == s as usize, "full segment");
    forget(t);
    forget(ch);
}
//# funcs=SendTransaction::send_pdu(SendData),send_file_segment,get_file_segment; bound=file of 5 bytes, segment size 2, cursor symbolic 0..=4; stubs=S1,S2,S3,S5
th!(c20_q_send_progress_l5_s2, 12, { send_progress_step(5, 2) });
//# funcs=SendTransaction::send_pdu(SendData),get_file_segment; bound=empty file, segment size 4; stubs=S1,S2,S3,S5
th!(c20_q_send_progress_empty, 12, { send_progress_step(0, 4) });
//# funcs=SendTransaction::send_pdu(SendData),get_file_segment; bound=file of 3 bytes, segment size 4 (single short segment); stubs=S1,S2,S3,S5
th!(c20_t_send_progress_l3_s4, 12, { send_progress_step(3, 4) });
