//! C08 — receiver NAKs are well-formed and ask for exactly what is missing.
use crate::env::*;
use cfdp_core::{daemon::NakProcedure, filestore::ChecksumType, pdu::*, transaction::TransactionState};
use cfdp_daemon::{transaction::RecvTransaction, verif::{self, VRecvState}};
use std::{collections::VecDeque, mem::forget, time::Duration};

const NOW: u64 = 1000;
const SZ: u64 = 1 << 32;

fn held(b: &[u64; 4], k: usize, p: u64) -> bool {
    let mut r = false;
    let mut i = 0;
    while i < k {
        if b[2 * i] <= p && p < b[2 * i + 1] {
            r = true;
        }
        i += 1;
    }
    r
}

/// receiver after EOF (size n symbolic), k held segments inside [0,n], metadata present or not
fn after_eof(k: usize, ch: &Chans, seg: u16, md: Option<bool>) -> (RecvTransaction<ModelFs>, [u64; 4], u64, bool) {
    let n: u64 = kani::any();
    kani::assume(n < SZ);
    let (s, b) = any_segments(k, n);
    after_eof_with(s, b, k, n, ch, seg, md)
}
/// the same from a concrete shape: size 10, held (3,7) (the general list is C09's subject; this instance checks
/// how the receiver composes the list query into its request queue)
fn after_eof_concrete(ch: &Chans, md: Option<bool>) -> (RecvTransaction<ModelFs>, [u64; 4], u64, bool) {
    let mut s = cfdp_daemon::verif::Segments::new();
    s.merge((3, 7));
    after_eof_with(s, [3, 7, 0, 0], 1, 10, ch, 64, md)
}
fn after_eof_with(s: cfdp_daemon::verif::Segments, b: [u64; 4], k: usize, n: u64, ch: &Chans, seg: u16, md: Option<bool>) -> (RecvTransaction<ModelFs>, [u64; 4], u64, bool) {
    verif::set_now(Duration::from_secs(NOW));
    let mut cfg = config(TransmissionMode::Acknowledged);
    cfg.file_size_segment = seg;
    let mut p = recv_parts(cfg, NakProcedure::Deferred(Duration::ZERO), ch);
    let mut total = 0;
    let mut i = 0;
    while i < k {
        total += b[2 * i + 1] - b[2 * i];
        i += 1;
    }
    set_field(&mut p.saved_segments, s);
    p.received_file_size = total;
    p.nak_received_file_size = total;
    let has_md: bool = match md {
        Some(x) => x,
        None => kani::any(),
    };
    if has_md {
        p.metadata = Some(metadata(true, n, false, ChecksumType::Modular, vec![]));
    }
    p.file_size = Some(n);
    p.checksum = Some(0);
    // NAK timer: running, not expired, limit not reached
    p.timer.nak = counter(5, 2, NOW, 0, false, false);
    p.timer.inactivity = counter(10, 2, NOW, 0, false, false);
    (RecvTransaction::verif_from_parts(p), b, n, has_md)
}

/// well-formedness of one NAK PDU and its header; returns (covers probe?, has (0,0)?)
fn check_nak_pdu(pdu: &PDU, n: u64, has_md: bool, max_reqs: usize, seg: u16, p: u64) -> (bool, bool) {
    let nak = match &pdu.payload {
        PDUPayload::Directive(Operations::Nak(nak)) => nak,
        _ => {
            assert!(false, "NAK expected");
            unreachable!()
        }
    };
    assert!(pdu.header.direction == Direction::ToSender && pdu.header.pdu_type == PDUType::FileDirective);
    assert!(pdu.header.pdu_data_field_length == pdu.payload.encoded_len(FileSizeFlag::Small), "length field == payload");
    assert!(pdu.header.pdu_data_field_length as u32 <= seg as u32 + 4, "NAK PDU no larger than a full file-data PDU");
    assert!(nak.segment_requests.len() <= max_reqs, "request count within the PDU capacity");
    assert!(nak.start_of_scope <= nak.end_of_scope && nak.end_of_scope <= n, "scope inside the file");
    let mut covers = false;
    let mut zero = false;
    let mut i = 0;
    while i < nak.segment_requests.len() {
        let r = &nak.segment_requests[i];
        if r.start_offset == 0 && r.end_offset == 0 {
            assert!(!has_md, "0-0 marker only while metadata is missing");
            zero = true;
        } else {
            assert!(r.start_offset < r.end_offset, "non-empty range");
            assert!(nak.start_of_scope <= r.start_offset && r.end_offset <= nak.end_of_scope, "request inside the scope");
            assert!(r.end_offset <= n, "request inside the file");
            if r.start_offset <= p && p < r.end_offset {
                covers = true;
            }
        }
        i += 1;
    }
    (covers, zero)
}

/// the queued requests are well-formed and cover exactly the missing bytes (probe-point formulation)
fn check_queue(t: &RecvTransaction<ModelFs>, b: &[u64; 4], k: usize, n: u64, has_md: bool, p: u64) {
    // read the queue through its (contiguous) slice at CONCRETE indices: indexing a VecDeque at a symbolic
    // position makes CBMC run out of memory
    let (q, tail) = t.verif_naks().as_slices();
    assert!(tail.is_empty());
    assert!(q.len() <= k + 2, "at most one request per gap plus the metadata marker");
    let mut covers = false;
    let mut zero = false;
    let mut prev_end = 0u64;
    let mut i = 0;
    while i < 4 {
        if i < q.len() {
            let r = &q[i];
            if r.start_offset == 0 && r.end_offset == 0 {
                assert!(!has_md && i == 0, "0-0 marker only while metadata is missing, and first");
                zero = true;
            } else {
                assert!(r.start_offset < r.end_offset, "non-empty range");
                assert!(r.end_offset <= n, "request inside the file");
                assert!(r.start_offset >= prev_end, "ascending, non-overlapping");
                prev_end = r.end_offset;
                if r.start_offset <= p && p < r.end_offset {
                    covers = true;
                }
            }
        }
        i += 1;
    }
    assert!(covers == !held(b, k, p), "a byte is requested exactly when it is not held");
    assert!(zero == !has_md, "metadata requested exactly when missing");
}

fn all_naks_after_eof(k: usize, md: bool, concrete: bool) {
    let ch = chans();
    let (mut t, b, n, has_md) = if concrete { after_eof_concrete(&ch, Some(md)) } else { after_eof(k, &ch, 64, Some(md)) };
    let p: u64 = kani::any();
    kani::assume(p < n);
    // NAK timer expiry: all gaps are queued again
    verif::set_now(Duration::from_secs(NOW + 5));
    t.handle_timeout().unwrap();
    check_queue(&t, &b, k, n, has_md, p);
    kani::cover!(k == 0 || b[0] > 0, "first byte missing");
    forget(t);
    forget(ch);
}
// With the metadata MISSING the first queue entry (the 0-0 marker) is pushed unconditionally, so the queue is
// allocated on a concrete path; with the metadata present every push is conditional and the VecDeque growth under a
// symbolic guard runs CBMC out of memory (> 38 GB) - that instance lives in the thorough tier.
//# funcs=RecvTransaction::handle_timeout,get_all_naks,Segments::gaps; bound=after EOF (size < 2^32 symbolic), metadata missing, nothing held, NAK-timer expiry; stubs=S1,S2,S3
th!(c08_q_all_naks_timer_k0, 8, { all_naks_after_eof(0, false, false) });
//# funcs=RecvTransaction::handle_timeout,get_all_naks,Segments::gaps; bound=after EOF of a 10-byte file with (3,7) held, metadata missing, NAK-timer expiry, probe byte symbolic: marker + head + tail; stubs=S1,S2,S3
th!(c08_q_all_naks_timer_k1, 8, { all_naks_after_eof(1, false, true) });
//# funcs=RecvTransaction::handle_timeout,get_all_naks,Segments::gaps; bound=as above with the metadata present (no marker); stubs=S1,S2,S3
th!(c08_q_all_naks_timer_k1_md, 8, { all_naks_after_eof(1, true, true) });
//# funcs=RecvTransaction::handle_timeout,get_all_naks,Segments::gaps; bound=after EOF (size < 2^32 symbolic), metadata missing, 1 held segment (any sub-range of the file); 250 s / 9.5 GB alone; stubs=S1,S2,S3
th!(c08_t_all_naks_timer_sym_k1, 8, { all_naks_after_eof(1, false, false) });
//# funcs=RecvTransaction::handle_timeout,get_all_naks,Segments::gaps; bound=after EOF, metadata PRESENT, 1 held symbolic segment (may be inconclusive: memory); stubs=S1,S2,S3
th!(c08_t_all_naks_timer_sym_k1_md, 8, { all_naks_after_eof(1, true, false) });
//# funcs=RecvTransaction::handle_timeout,get_all_naks,Segments::gaps; bound=after EOF, metadata missing, 2 held symbolic segments (may be inconclusive: memory); stubs=S1,S2,S3
th!(c08_t_all_naks_timer_sym_k2, 9, { all_naks_after_eof(2, false, false) });

//# funcs=RecvTransaction::has_naks,has_pdu_to_send,Segments::is_complete; bound=after EOF (size symbolic), 0 or 1 held segment, metadata present/missing: "something is missing" is decided exactly; stubs=S1,S2,S3
th!(c08_q_has_naks_exact, 8, {
    let ch = chans();
    let k: usize = if kani::any() { 1 } else { 0 };
    let (t, b, n, has_md) = if k == 1 { after_eof(1, &ch, 64, None) } else { after_eof(0, &ch, 64, None) };
    let complete = has_md && (n == 0 || (k == 1 && b[0] == 0 && b[1] == n));
    assert!(t.verif_has_naks() == !complete, "missing data or metadata is noticed exactly (incl. a missing first segment, an empty file)");
    kani::cover!(complete, "complete");
    kani::cover!(k == 1 && b[0] > 0 && b[1] == n && has_md, "only the first segment missing");
    forget(t);
    forget(ch);
});

//# funcs=RecvTransaction::process_pdu(Prompt),send_pdu,answer_prompt,get_all_naks,send_naks; bound=after EOF, 1 held segment, NAK prompt answered at the next send opportunity; stubs=S1,S2,S3
th!(c08_x_all_naks_prompt_k1, 8, {
    let ch = chans();
    let (mut t, b, n, has_md) = after_eof(1, &ch, 64, Some(false));
    let p: u64 = kani::any();
    kani::assume(p < n);
    t.process_pdu(directive(
        TransmissionMode::Acknowledged,
        Direction::ToReceiver,
        Operations::Prompt(PromptPDU { nak_or_keep_alive: NakOrKeepAlive::Nak }),
    ))
    .unwrap();
    assert!(verif::recv_has_pdu_to_send(&t), "a prompt is answered");
    let out = recv_send(&mut t, &ch);
    match &out {
        Some((dest, pdu)) => {
            assert!(*dest == VariableID::from(SRC_ID), "NAK goes to the sending entity");
            let (covers, zero) = check_nak_pdu(pdu, n, has_md, 7, 64, p);
            assert!(covers == !held(&b, 1, p), "a byte is requested exactly when it is not held");
            assert!(zero == !has_md, "metadata requested exactly when missing");
        }
        None => assert!(false, "NAK PDU expected"),
    }
    forget(out);
    assert!(t.verif_naks().is_empty(), "3 requests fit one PDU");
    kani::cover!(b[0] > 0, "first segment missing");
    forget(t);
    forget(ch);
});

/// EOF arrives while data is missing. `sym`: file size symbolic and metadata missing (the 0-0 marker is then pushed
/// unconditionally, see above - but the by-value PDU makes symex walk the Metadata arm of process_pdu too, which is
/// only cheap when the metadata is already present); `!sym`: size 4, metadata present, every branch concrete.
fn eof_then_nak(k: usize, queued: bool, sym: bool) {
    let ch = chans();
    verif::set_now(Duration::from_secs(NOW));
    let mut p = recv_parts(config(TransmissionMode::Acknowledged), NakProcedure::Deferred(Duration::ZERO), &ch);
    let n: u64 = if sym { kani::any() } else { 4 };
    kani::assume(n < SZ && n > 0);
    let (s, b) = if sym {
        any_segments(k, n)
    } else if k == 1 {
        let mut s = cfdp_daemon::verif::Segments::new();
        s.merge((1, 3));
        (s, [1, 3, 0, 0])
    } else {
        (cfdp_daemon::verif::Segments::new(), [0, 0, 0, 0])
    };
    set_field(&mut p.saved_segments, s);
    let heldb = if k == 1 { b[1] - b[0] } else { 0 };
    p.received_file_size = heldb;
    p.nak_received_file_size = heldb;
    if !sym {
        p.metadata = Some(metadata(true, 0, false, ChecksumType::Modular, vec![]));
    }
    p.timer.inactivity = counter(10, 2, NOW, 0, false, false);
    if queued {
        // a request from before the EOF is still waiting to be sent (immediate procedure, or the rest of a split list)
        p.naks.push_back(SegmentRequestForm { start_offset: 0, end_offset: 1 });
    }
    let mut t = RecvTransaction::verif_from_parts(p);
    let probe: u64 = kani::any();
    kani::assume(probe < n);
    let eof = EndOfFile { condition: Condition::NoError, checksum: kani::any(), file_size: n, fault_location: None };
    t.process_pdu(directive(TransmissionMode::Acknowledged, Direction::ToReceiver, Operations::EoF(eof))).unwrap();
    assert!(t.verif_recv_state() == VRecvState::ReceiveData, "incomplete file is not finalised");
    assert!(matches!(t.verif_ack(), Some(a) if a.directive == PDUDirective::EoF), "ACK(EOF) armed");
    check_queue(&t, &b, k, n, !sym, probe);
    assert!(verif::recv_has_pdu_to_send(&t), "something is missing: ACK(EOF) and a NAK are due right after EOF (deferred, no delay)");
    kani::cover!(k == 0 || b[0] > 0, "first byte missing");
    forget(t);
    forget(ch);
}
//# funcs=RecvTransaction::process_pdu(EoF),check_file_size,check_finished,has_naks,get_all_naks,prepare_ack_eof; bound=EOF (size 4, checksum symbolic) arrives with nothing held, metadata present, deferred procedure delay 0: ACK(EOF) armed, exactly the missing bytes queued (probe byte symbolic); stubs=S1,S2,S3
th!(c08_q_eof_then_nak_k0, 8, { eof_then_nak(0, false, false) });
//# funcs=RecvTransaction::process_pdu(EoF),get_all_naks,Segments::gaps; bound=as above with (1,3) of the 4 bytes held: head and tail requested; stubs=S1,S2,S3
th!(c08_q_eof_then_nak_k1, 8, { eof_then_nak(1, false, false) });
//# funcs=RecvTransaction::process_pdu(EoF),get_all_naks; bound=as k0 with one request already queued when the EOF arrives: after EOF the queue is exactly the missing bytes; stubs=S1,S2,S3
th!(c08_q_eof_then_nak_prequeued, 8, { eof_then_nak(0, true, false) });
//# funcs=RecvTransaction::process_pdu(EoF),get_all_naks,Segments::gaps; bound=EOF size symbolic < 2^32, metadata missing, nothing held (may be inconclusive: time); stubs=S1,S2,S3
th!(c08_x_eof_then_nak_sym_k0, 8, { eof_then_nak(0, false, true) });
//# funcs=RecvTransaction::process_pdu(EoF),get_all_naks,Segments::gaps; bound=EOF size symbolic, metadata missing, 1 held segment (any sub-range) (may be inconclusive: time); stubs=S1,S2,S3
th!(c08_x_eof_then_nak_sym_k1, 8, { eof_then_nak(1, false, true) });

//# funcs=RecvTransaction::send_pdu,send_naks,get_header; bound=queue of 2 symbolic requests (+ 0-0 marker present or not, per instance), file size < 2^32: the NAK PDU is well-formed, scope = first start..last end, requests kept in order; stubs=S1,S2,S3
th!(c08_q_send_naks_wellformed, 8, {
    let ch = chans();
    let (t0, _b, n, _md) = after_eof(0, &ch, 64, Some(true));
    let mut p = t0.verif_into_parts();
    let (a1, e1, a2, e2): (u64, u64, u64, u64) = (kani::any(), kani::any(), kani::any(), kani::any());
    kani::assume(a1 < e1 && e1 <= a2 && a2 < e2 && e2 <= n);
    p.metadata = Some(metadata(true, n, false, ChecksumType::Modular, vec![]));
    set_field(&mut p.naks, VecDeque::from(vec![
        SegmentRequestForm { start_offset: a1, end_offset: e1 },
        SegmentRequestForm { start_offset: a2, end_offset: e2 },
    ]));
    let mut t = RecvTransaction::verif_from_parts(p);
    let out = recv_send(&mut t, &ch);
    match &out {
        Some((dest, pdu)) => {
            assert!(*dest == VariableID::from(SRC_ID));
            let _ = check_nak_pdu(pdu, n, true, 7, 64, a1);
            if let PDUPayload::Directive(Operations::Nak(nk)) = &pdu.payload {
                assert!(nk.start_of_scope == a1 && nk.end_of_scope == e2, "scope spans the requests");
                assert!(nk.segment_requests.len() == 2 && nk.segment_requests[0].start_offset == a1 && nk.segment_requests[1].end_offset == e2, "requests kept, in order");
            }
        }
        None => assert!(false, "NAK expected"),
    }
    forget(out);
    kani::cover!(true, "end");
    forget(t);
    forget(ch);
});

//# funcs=RecvTransaction::process_pdu(FileData),has_pdu_to_send,handle_timeout; bound=deferred procedure (delay 0..3 s), EOF not received, nothing held, 2 bytes arrive at any offset in (0, 2^30) (a gap at the head): no unsolicited NAK before EOF; stubs=S1,S2,S3,S5
th!(c08_q_deferred_no_nak_before_eof, 8, {
    let ch = chans();
    link_libc();
    verif::set_now(Duration::from_secs(NOW));
    let delay: u64 = kani::any();
    kani::assume(delay <= 3);
    let mut p = recv_parts(config(TransmissionMode::Acknowledged), NakProcedure::Deferred(Duration::from_secs(delay)), &ch);
    // nothing held yet: the first data to arrive does not start at offset 0 (a gap at the head of the file)
    let b = [0u64, 0, 0, 0];
    if kani::any() {
        p.metadata = Some(metadata(true, 0, false, ChecksumType::Modular, vec![]));
    }
    p.timer.inactivity = counter(10, 2, NOW, 0, false, false);
    let mut t = RecvTransaction::verif_from_parts(p);
    let off: u64 = kani::any();
    kani::assume(off > 0 && off < (1 << 30));
    t.process_pdu(filedata(TransmissionMode::Acknowledged, off, vec![kani::any(), kani::any()])).unwrap();
    assert!(!verif::recv_has_pdu_to_send(&t) && t.verif_naks().is_empty(), "no NAK before EOF under the deferred procedure");
    verif::set_now(Duration::from_secs(NOW + 4));
    t.handle_timeout().unwrap();
    assert!(!verif::recv_has_pdu_to_send(&t) && t.verif_naks().is_empty(), "still none after a timer tick");
    kani::cover!(off > b[1], "gap created");
    forget(t);
    forget(ch);
});

//# funcs=RecvTransaction::process_pdu(FileData) immediate procedure,handle_timeout (delayed NAK),Segments::gaps; bound=immediate procedure, delay 0 or 2 s, nothing held, 1 byte arrives at any offset in (0, 2^30): the new gap is requested at once / after the delay if it persists; stubs=S1,S2,S3,S5
fn immediate_new_gap(delayed: bool) {
    let ch = chans();
    link_libc();
    verif::set_now(Duration::from_secs(NOW));
    let proc_ = NakProcedure::Immediate(Duration::from_secs(if delayed { 2 } else { 0 }));
    let mut p = recv_parts(config(TransmissionMode::Acknowledged), proc_, &ch);
    // nothing held yet (previous end = 0): data at offset > 0 opens the gap (0, offset)
    let b = [0u64, 0, 0, 0];
    p.metadata = Some(metadata(true, 0, false, ChecksumType::Modular, vec![]));
    p.timer.inactivity = counter(10, 2, NOW, 0, false, false);
    p.timer.nak = counter(5, 2, NOW, 0, false, false);
    if delayed {
        // the delayed request is pushed under a symbolic guard (number of gaps): give the queue its buffer up front,
        // growing a VecDeque on a symbolic path runs CBMC out of memory
        set_field(&mut p.naks, VecDeque::with_capacity(4));
    }
    let mut t = RecvTransaction::verif_from_parts(p);
    let off: u64 = kani::any();
    kani::assume(off > b[1] && off < (1 << 30));
    t.process_pdu(filedata(TransmissionMode::Acknowledged, off, vec![kani::any()])).unwrap();
    if !delayed {
        assert!(t.verif_naks().len() == 1, "new gap queued at once");
        let r = &t.verif_naks()[0];
        assert!(r.start_offset == b[1] && r.end_offset == off, "the gap between the old end and the new data");
        assert!(verif::recv_has_pdu_to_send(&t));
    } else {
        assert!(t.verif_naks().is_empty(), "not before the delay");
        assert!(verif::recv_until_timeout(&t) <= Duration::from_secs(2), "the delay timer wakes the transaction");
        verif::set_now(Duration::from_secs(NOW + 2));
        t.handle_timeout().unwrap();
        assert!(t.verif_naks().len() == 1, "gap persists: requested after the delay");
        let r = &t.verif_naks()[0];
        assert!(r.start_offset == b[1] && r.end_offset == off);
    }
    kani::cover!(true, "end");
    forget(t);
    forget(ch);
}
th!(c08_q_immediate_new_gap, 8, { immediate_new_gap(false) });
//# funcs=RecvTransaction::process_pdu(FileData) immediate procedure with delay,handle_timeout (delayed NAK); bound=both steps in one harness, delay 2 s (may be inconclusive: time); stubs=S1,S2,S3,S5
th!(c08_x_immediate_delayed_gap_two_steps, 8, { immediate_new_gap(true) });
//# funcs=RecvTransaction::process_pdu(FileData) immediate procedure with delay,until_timeout; bound=immediate procedure, delay 2 s, nothing held, 1 byte at any offset in (0, 2^30): nothing queued yet, one delay timer for exactly the new gap, armed to fire within 2 s; stubs=S1,S2,S3,S5
th!(c08_q_immediate_delayed_gap_armed, 8, {
    let ch = chans();
    link_libc();
    verif::set_now(Duration::from_secs(NOW));
    let mut p = recv_parts(config(TransmissionMode::Acknowledged), NakProcedure::Immediate(Duration::from_secs(2)), &ch);
    p.metadata = Some(metadata(true, 0, false, ChecksumType::Modular, vec![]));
    p.timer.inactivity = counter(10, 2, NOW, 0, false, false);
    p.timer.nak = counter(5, 2, NOW, 0, false, false);
    let mut t = RecvTransaction::verif_from_parts(p);
    let off: u64 = kani::any();
    kani::assume(off > 0 && off < (1 << 30));
    t.process_pdu(filedata(TransmissionMode::Acknowledged, off, vec![kani::any()])).unwrap();
    assert!(t.verif_naks().is_empty(), "not before the delay");
    assert!(t.verif_delayed_len() == 1 && t.verif_delayed(0) == (0, off), "one delay timer for exactly the new gap");
    assert!(verif::recv_until_timeout(&t) <= Duration::from_secs(2), "the delay timer wakes the transaction");
    kani::cover!(true, "end");
    forget(t);
    forget(ch);
});
//# funcs=RecvTransaction::handle_timeout (delayed NAK),Segments::gaps; bound=state after the step above (1 byte held at a symbolic offset, one delay timer for the gap (0,off)), clock at the expiry: the gap is requested if it persists - and only the part of it that persists (a second held segment, symbolic, inside the gap, present or not); stubs=S1,S2,S3
fn delayed_gap_fires(filled: bool) {
    let ch = chans();
    verif::set_now(Duration::from_secs(NOW));
    let mut p = recv_parts(config(TransmissionMode::Acknowledged), NakProcedure::Immediate(Duration::from_secs(2)), &ch);
    p.metadata = Some(metadata(true, 0, false, ChecksumType::Modular, vec![]));
    p.timer.inactivity = counter(10, 2, NOW, 0, false, false);
    p.timer.nak = counter(5, 2, NOW, 0, false, false);
    let off: u64 = kani::any();
    kani::assume(off > 0 && off < (1 << 30));
    // part of the gap may have arrived in the meantime: (a,c) strictly inside (0,off), not touching either end
    let (a, c): (u64, u64) = (kani::any(), kani::any());
    kani::assume(0 < a && a < c && c < off);
    // the list is built directly (hook): symbolic merges are C09's subject and cost minutes each
    let segs = if filled {
        cfdp_daemon::verif::Segments::verif_from(vec![(a, c), (off, off + 1)])
    } else {
        cfdp_daemon::verif::Segments::verif_from(vec![(off, off + 1)])
    };
    set_field(&mut p.saved_segments, segs);
    p.received_file_size = 1 + if filled { c - a } else { 0 };
    set_field(&mut p.delayed_nack_timers, vec![(counter(2, 1, NOW, 0, false, false), 0, off)]);
    // the queue gets its buffer up front (rule 8: the pushes below depend on the symbolic number of gaps)
    set_field(&mut p.naks, VecDeque::with_capacity(4));
    let mut t = RecvTransaction::verif_from_parts(p);
    verif::set_now(Duration::from_secs(NOW + 2));
    t.handle_timeout().unwrap();
    let probe: u64 = kani::any();
    kani::assume(probe < off);
    let (q, tail) = t.verif_naks().as_slices();
    assert!(tail.is_empty() && q.len() == if filled { 2 } else { 1 }, "one request per persisting part of the gap");
    let mut covers = false;
    let mut i = 0;
    while i < 2 {
        if i < q.len() {
            assert!(q[i].start_offset < q[i].end_offset && q[i].end_offset <= off, "non-empty, inside the gap");
            if q[i].start_offset <= probe && probe < q[i].end_offset {
                covers = true;
            }
        }
        i += 1;
    }
    assert!(covers == !(filled && a <= probe && probe < c), "a byte of the gap is requested exactly when it is still missing");
    assert!(t.verif_delayed_len() == 0, "the delay timer is consumed");
    kani::cover!(true, "end");
    forget(t);
    forget(ch);
}
th!(c08_q_immediate_delayed_gap_fires, 8, { delayed_gap_fires(false) });
//# funcs=RecvTransaction::handle_timeout (delayed NAK),Segments::gaps; bound=as above, with a symbolic segment strictly inside the gap received in the meantime: two requests, exactly the parts still missing; stubs=S1,S2,S3
th!(c08_q_immediate_delayed_gap_partly_filled, 8, { delayed_gap_fires(true) });

//# funcs=RecvTransaction::send_naks,NegativeAcknowledgmentPDU::max_nak_num; bound=queue of 4 requests incl. 0-0, segment size 24 (capacity 2 requests per PDU): split over PDUs, each well-formed; stubs=S1,S2,S3
th!(c08_q_split_over_pdus, 8, {
    let ch = chans();
    let (mut t0, _b, _n, _md) = after_eof(0, &ch, 24, Some(true));
    let mut p = t0.verif_into_parts();
    p.metadata = None;
    p.file_size = Some(100);
    set_field(&mut p.naks, VecDeque::from(vec![
        SegmentRequestForm { start_offset: 0, end_offset: 0 },
        SegmentRequestForm { start_offset: 0, end_offset: 10 },
        SegmentRequestForm { start_offset: 20, end_offset: 30 },
        SegmentRequestForm { start_offset: 40, end_offset: 100 },
    ]));
    let mut t = RecvTransaction::verif_from_parts(p);
    let mut sent = 0;
    let mut reqs = 0;
    while verif::recv_has_pdu_to_send(&t) && sent < 3 {
        let out5 = recv_send(&mut t, &ch);
        match &out5 {
            Some((_, pdu)) => {
                let _ = check_nak_pdu(&pdu, 100, false, 2, 24, 0);
                if let PDUPayload::Directive(Operations::Nak(nk)) = &pdu.payload {
                    reqs += nk.segment_requests.len();
                }
                forget(pdu);
            }
            None => assert!(false),
        }
        forget(out5);
        sent += 1;
    }
    assert!(sent == 2 && reqs == 4, "all queued requests leave, two per PDU");
    kani::cover!(true, "end");
    forget(t);
    forget(ch);
});

//# funcs=RecvTransaction::process_pdu(Metadata) after EOF,check_finished,has_naks; bound=4-byte file, (2,4) held, EOF received, metadata arrives late while the queue holds the 0-0 marker and the request for the missing head (0,2): the request for the missing data survives, something stays due (does not finish: 24 GB, rule 7 - the reinterpreted FileData arm is walked); stubs=S1,S2,S3,S5
th!(c08_x_late_metadata_keeps_requests, 8, {
    let ch = chans();
    link_libc();
    let mut s = cfdp_daemon::verif::Segments::new();
    s.merge((2, 4));
    let (t0, _b, _n, _md) = after_eof_with(s, [2, 4, 0, 0], 1, 4, &ch, 64, Some(false));
    let mut p = t0.verif_into_parts();
    set_field(
        &mut p.naks,
        VecDeque::from(vec![SegmentRequestForm { start_offset: 0, end_offset: 0 }, SegmentRequestForm { start_offset: 0, end_offset: 2 }]),
    );
    let mut t = RecvTransaction::verif_from_parts(p);
    let md = MetadataPDU {
        closure_requested: false,
        checksum_type: ChecksumType::Modular,
        file_size: 4,
        source_filename: "s".into(),
        destination_filename: "d".into(),
        options: vec![],
    };
    let r = t.process_pdu(directive(TransmissionMode::Acknowledged, Direction::ToReceiver, Operations::Metadata(md)));
    forget(r);
    let probe: u64 = kani::any();
    kani::assume(probe < 2);
    let (q, tail) = t.verif_naks().as_slices();
    assert!(tail.is_empty());
    let mut covers = false;
    let mut i = 0;
    while i < 3 {
        if i < q.len() && q[i].start_offset <= probe && probe < q[i].end_offset {
            covers = true;
        }
        i += 1;
    }
    assert!(covers, "the queued request for missing data survives the arrival of the metadata");
    assert!(t.verif_recv_state() == VRecvState::ReceiveData && verif::recv_has_pdu_to_send(&t), "data is still missing: a NAK stays due");
    kani::cover!(true, "end");
    forget(t);
    forget(ch);
});
