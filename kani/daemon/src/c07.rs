//! C07 — sender transmits exactly the source file: right bytes, offsets, sizes, checksum.
use crate::env::*;
use cfdp_core::{daemon::NakProcedure, filestore::ChecksumType, pdu::*, transaction::TransactionState};
use cfdp_daemon::{transaction::SendTransaction, verif::{self, VSendState}};
use std::{collections::VecDeque, mem::forget, time::Duration};

/// model of the key hash: constant (collisions are resolved by Eq, which is the real derived one)
pub fn hasher_finish_stub(_h: &std::hash::DefaultHasher) -> u64 {
    0
}

fn sender(l: usize, s: u16, state: VSendState, ch: &Chans) -> SendTransaction<ModelFs> {
    link_libc();
    verif::set_now(Duration::from_secs(100));
    let content: [u8; CAP] = kani::any();
    set_file(SRC, &content[..l]);
    let mut cfg = config(TransmissionMode::Acknowledged);
    cfg.file_size_segment = s;
    let mut p = send_parts(cfg, metadata(true, l as u64, false, ChecksumType::Modular, vec![]), ch);
    p.send_state = state;
    p.timer.inactivity = counter(10, 2, 100, 0, false, false);
    SendTransaction::verif_from_parts(p)
}
fn check_header(h: &PDUHeader, payload: &PDUPayload, t: PDUType) {
    assert!(h.source_entity_id == VariableID::from(SRC_ID) && h.destination_entity_id == VariableID::from(DST_ID));
    assert!(h.transaction_sequence_number == VariableID::from(SEQ), "transaction identifiers");
    assert!(h.transmission_mode == TransmissionMode::Acknowledged && h.direction == Direction::ToReceiver, "mode and direction");
    assert!(h.pdu_type == t);
    assert!(h.pdu_data_field_length == payload.encoded_len(FileSizeFlag::Small), "length field equals the payload");
    assert!(h.crc_flag == CRCFlag::NotPresent && h.large_file_flag == FileSizeFlag::Small);
}

// ---------------------------------------------------------------- NAK range splitting and de-duplication
// ★ The NAK arm of `process_pdu` (flat_map / step_by / collect / VecDeque::extend / HashSet) does not finish when
// the NUMBER of pieces is symbolic (rule 8). The base offset of the requests is symbolic (any 64-bit value below
// 2^62), their positions relative to it and their lengths are concrete per instance; segment size 4.
fn expected_pieces(r: &[(u64, u64)], want: &mut [(u64, u64); 8]) -> usize {
    let seg = 4u64;
    let mut nw = 0;
    let mut i = 0;
    while i < r.len() {
        let (s, e) = r[i];
        if s == e {
            let mut dup = false;
            let mut j = 0;
            while j < nw {
                if want[j] == (s, e) {
                    dup = true;
                }
                j += 1;
            }
            if !dup {
                want[nw] = (s, e);
                nw += 1;
            }
        } else if s < e {
            let mut a = s;
            let mut it = 0;
            while a < e && it < 3 {
                let b = if e - a > seg { a + seg } else { e };
                let mut dup = false;
                let mut j = 0;
                while j < nw {
                    if want[j] == (a, b) {
                        dup = true;
                    }
                    j += 1;
                }
                if !dup {
                    want[nw] = (a, b);
                    nw += 1;
                }
                a = b;
                it += 1;
            }
        }
        i += 1;
    }
    nw
}
fn nak_split(rel: &[(u64, u64)], fixed_base: Option<u64>) {
    let ch = chans();
    let mut t0 = sender(0, 4, VSendState::SendEof, &ch);
    let base: u64 = match fixed_base {
        Some(b) => b,
        None => kani::any(),
    };
    kani::assume(base < (1 << 62));
    let mut reqs = Vec::new();
    let mut i = 0;
    while i < rel.len() {
        // same-expression starts/ends (base + constant) keep equal requests syntactically equal
        reqs.push(SegmentRequestForm { start_offset: base + rel[i].0, end_offset: base + rel[i].1 });
        i += 1;
    }
    let nak = NegativeAcknowledgmentPDU { start_of_scope: 0, end_of_scope: u64::MAX, segment_requests: reqs };
    t0.process_pdu(directive(TransmissionMode::Acknowledged, Direction::ToSender, Operations::Nak(nak))).unwrap();
    let mut want = [(0u64, 0u64); 8];
    let nw = expected_pieces(rel, &mut want);
    // read the queue at concrete indices through its contiguous slice
    let (q, tail) = t0.verif_naks().as_slices();
    assert!(tail.is_empty());
    assert!(q.len() == nw, "queue holds exactly the segment-sized pieces of the requested ranges, once");
    let mut j = 0;
    while j < 6 {
        if j < nw && j < q.len() {
            assert!(q[j].start_offset == base + want[j].0 && q[j].end_offset == base + want[j].1, "piece boundaries");
            assert!(q[j].end_offset - q[j].start_offset <= 4, "no piece longer than a segment");
        }
        j += 1;
    }
    kani::cover!(fixed_base.is_some() || base > (1 << 40), "large offsets");
    forget(t0);
    forget(ch);
}
// ★ Even with one symbolic quantity (the base offset) the arm did not finish in 10 minutes: `step_by` derives its trip
// count from `(end - start) / step`, which stays symbolic. The quick instances are therefore CONCRETE executions of
// the real arm (the solver decides nothing beyond what a unit test would; they are kept because no test of the
// repository exercises these shapes); the symbolic-base instances live in the thorough tier.
//# funcs=SendTransaction::process_pdu(Nak); bound=CONCRETE: 1 request of 7 bytes at offset 0 and at 2^40+1 (one full and one partial piece, segment size 4); stubs=S1,S2,S3,S6
th!(#[kani::stub(<std::hash::DefaultHasher as std::hash::Hasher>::finish, hasher_finish_stub)] c07_x_nak_split_1, 8, {
    nak_split(&[(0, 7)], Some(0));
    nak_split(&[(0, 7)], Some((1 << 40) + 1));
});
//# funcs=SendTransaction::process_pdu(Nak); bound=CONCRETE: the 0-0 metadata marker followed by a request for bytes 0..3 (same start): both must be queued; stubs=S1,S2,S3,S6
th!(#[kani::stub(<std::hash::DefaultHasher as std::hash::Hasher>::finish, hasher_finish_stub)] c07_x_nak_split_same_start, 8, { nak_split(&[(0, 0), (0, 3)], Some(0)) });
//# funcs=SendTransaction::process_pdu(Nak); bound=CONCRETE: the same 3-byte request twice: queued once; stubs=S1,S2,S3,S6
th!(#[kani::stub(<std::hash::DefaultHasher as std::hash::Hasher>::finish, hasher_finish_stub)] c07_x_nak_split_duplicate, 8, { nak_split(&[(0, 3), (0, 3)], Some(8)) });
//# funcs=SendTransaction::process_pdu(Nak); bound=1 request of 7 bytes at a symbolic 64-bit offset < 2^62 (may be inconclusive: > 10 min); stubs=S1,S2,S3,S6
th!(#[kani::stub(<std::hash::DefaultHasher as std::hash::Hasher>::finish, hasher_finish_stub)] c07_x_nak_split_1_symbolic_base, 8, { nak_split(&[(0, 7)], None) });
//# funcs=SendTransaction::process_pdu(Nak); bound=empty + 3-byte request at the same symbolic offset (may be inconclusive: > 10 min); stubs=S1,S2,S3,S6
th!(#[kani::stub(<std::hash::DefaultHasher as std::hash::Hasher>::finish, hasher_finish_stub)] c07_x_nak_split_same_start_symbolic_base, 8, { nak_split(&[(0, 0), (0, 3)], None) });
//# funcs=SendTransaction::process_pdu(Nak); bound=CONCRETE: 2 overlapping, unsorted requests (4..12, 0..8); stubs=S1,S2,S3,S6
th!(#[kani::stub(<std::hash::DefaultHasher as std::hash::Hasher>::finish, hasher_finish_stub)] c07_x_nak_split_overlap, 8, { nak_split(&[(4, 12), (0, 8)], Some(0)) });

// ---------------------------------------------------------------- first pass
fn first_pass(l: usize, s: u16, c: usize) {
    let ch = chans();
    let mut t = sender(l, s, VSendState::SendData, &ch);
    *t.verif_file_handle() = Some(handle(SRC));
    set_pos(SRC, c);
    let pdu = send_send(&mut t, &ch);
    let want_len = if l - c < s as usize { l - c } else { s as usize };
    match &pdu {
        Some((dest, PDU { header, payload })) => {
            assert!(*dest == VariableID::from(DST_ID));
            check_header(&header, &payload, PDUType::FileData);
            match &payload {
                PDUPayload::FileData(FileDataPDU::Unsegmented(d)) => {
                    assert!(d.offset == c as u64, "first pass continues at the cursor (no gap, no overlap)");
                    assert!(d.file_data.len() == want_len, "never more than the segment size, nothing beyond EOF");
                    let mut i = 0;
                    while i < want_len {
                        assert!(d.file_data[i] == file_byte(SRC, c + i), "bytes of the source file at the stated offset");
                        i += 1;
                    }
                }
                _ => assert!(false, "unsegmented file data expected"),
            }
            forget(payload);
        }
        None => assert!(false, "file data expected"),
    }
    forget(pdu);
    assert!(file_pos(SRC) == c + want_len, "cursor advanced by what was sent");
    if c + want_len == l {
        assert!(t.verif_send_state() == VSendState::SendEof, "end of file reached: EOF next");
        match t.verif_eof() {
            Some((e, true)) => {
                assert!(e.file_size == l as u64 && e.condition == Condition::NoError && e.fault_location.is_none(), "EOF states the true size");
                assert!(e.checksum == ref_checksum(SRC, l), "EOF states the true checksum");
            }
            _ => assert!(false, "EOF armed"),
        }
    } else {
        assert!(t.verif_send_state() == VSendState::SendData);
    }
    kani::cover!(c + want_len == l, "last segment");
    kani::cover!(c + want_len < l, "middle segment");
    forget(t);
    forget(ch);
}
// cursor, file length and segment size are concrete per instance (they decide buffer lengths); content symbolic
//# funcs=SendTransaction::send_pdu(SendData),send_file_segment,get_file_segment,get_header; bound=5-byte file (content symbolic), segment size 2, cursor 0; stubs=S1,S2,S3,S5; nocover=last segment
th!(c07_q_first_pass_first, 12, { first_pass(5, 2, 0) });
//# funcs=SendTransaction::send_pdu(SendData),get_file_segment,prepare_eof,get_checksum,FileChecksum::checksum; bound=5-byte file, segment size 2, cursor 4: short last segment, EOF armed with true size and checksum; stubs=S1,S2,S3,S5; nocover=middle segment
th!(c07_q_first_pass_last, 12, { first_pass(5, 2, 4) });
//# funcs=SendTransaction::send_pdu(SendData),prepare_eof; bound=empty file; stubs=S1,S2,S3,S5; nocover=middle segment
th!(c07_q_first_pass_empty, 12, { first_pass(0, 2, 0) });
//# funcs=SendTransaction::send_pdu(SendData); bound=5-byte file, segment size 2, cursor 2 (middle); stubs=S1,S2,S3,S5; nocover=last segment
th!(c07_t_first_pass_middle, 12, { first_pass(5, 2, 2) });
//# funcs=SendTransaction::send_pdu(SendData),prepare_eof; bound=4-byte file, segment size 4 (exactly one segment); stubs=S1,S2,S3,S5; nocover=middle segment
th!(c07_t_first_pass_l4_s4, 12, { first_pass(4, 4, 0) });

// ---------------------------------------------------------------- retransmission
fn retransmit(l: usize, s: u16, state: VSendState, a: u64, b: u64, c: usize) {
    let ch = chans();
    let mut t = sender(l, s, state, &ch);
    *t.verif_file_handle() = Some(handle(SRC));
    set_pos(SRC, c);
    // a queued piece (as produced by the NAK splitting): start <= end, at most one segment long, anywhere
    t.verif_naks_mut().push_back(SegmentRequestForm { start_offset: a, end_offset: b });
    let before = t.verif_progress();
    let pdu = send_send(&mut t, &ch);
    let lo = if (a as usize) < l { a as usize } else { l };
    let hi = if (b as usize) < l { b as usize } else { l };
    match &pdu {
        Some((_, PDU { header, payload })) => {
            check_header(&header, &payload, PDUType::FileData);
            match &payload {
                PDUPayload::FileData(FileDataPDU::Unsegmented(d)) => {
                    assert!(d.offset == a, "retransmission at the requested offset");
                    assert!(d.file_data.len() == hi - lo, "exactly the part of the range inside the file");
                    let mut i = 0;
                    while i < hi - lo {
                        assert!(d.file_data[i] == file_byte(SRC, lo + i), "bytes of the source file");
                        i += 1;
                    }
                }
                _ => assert!(false, "file data expected"),
            }
            forget(payload);
        }
        None => assert!(false, "retransmission expected"),
    }
    forget(pdu);
    assert!(t.verif_naks().is_empty(), "request consumed");
    assert!(file_pos(SRC) == c, "first-pass cursor restored");
    assert!(t.verif_progress() == before, "retransmission does not change the progress");
    kani::cover!(true, "end");
    kani::cover!(hi - lo > 0 && (b as usize) > l, "range cut at EOF");
    kani::cover!(a as usize >= l, "range beyond EOF");
    forget(t);
    forget(ch);
}
//# funcs=SendTransaction::send_pdu(SendEof),send_missing_data,send_file_segment,get_file_segment; bound=5-byte file (content symbolic), queued piece (1,4) inside the file, cursor at EOF; stubs=S1,S2,S3,S5; nocover=range cut at EOF|range beyond EOF
th!(c07_q_retransmit_inside, 12, { retransmit(5, 3, VSendState::SendEof, 1, 4, 5) });
//# funcs=SendTransaction::send_pdu(SendEof),send_missing_data,get_file_segment; bound=queued piece (3,6) cut at the end of the 5-byte file; stubs=S1,S2,S3,S5; nocover=range beyond EOF
th!(c07_q_retransmit_cut_at_eof, 12, { retransmit(5, 3, VSendState::SendEof, 3, 6, 5) });
//# funcs=SendTransaction::send_pdu(SendData),send_missing_data; bound=NAK answered while the first pass is still running (cursor 2): piece (0,2); the first-pass cursor survives; stubs=S1,S2,S3,S5; nocover=range cut at EOF|range beyond EOF
th!(c07_q_retransmit_during_first_pass, 12, { retransmit(5, 2, VSendState::SendData, 0, 2, 2) });
//# funcs=SendTransaction::send_pdu(SendEof),send_missing_data; bound=queued piece (6,8) entirely beyond the end of file; stubs=S1,S2,S3,S5; nocover=range cut at EOF
th!(c07_t_retransmit_beyond_eof, 12, { retransmit(5, 3, VSendState::SendEof, 6, 8, 5) });
//# funcs=SendTransaction::send_pdu(SendEof),send_missing_data; bound=empty queued piece (2,2); stubs=S1,S2,S3,S5; nocover=range cut at EOF|range beyond EOF
th!(c07_t_retransmit_empty_piece, 12, { retransmit(5, 3, VSendState::SendEof, 2, 2, 5) });

//# funcs=SendTransaction::send_pdu(SendMetadata),send_metadata,get_header; bound=names s/d, size symbolic, closure/checksum type symbolic, no options; stubs=S1,S2,S3
th!(c07_q_metadata_pdu, 8, {
    let ch = chans();
    link_libc();
    verif::set_now(Duration::from_secs(100));
    let size: u64 = kani::any();
    kani::assume(size < (1 << 32));
    let closure: bool = kani::any();
    let ck = if kani::any() { ChecksumType::Modular } else { ChecksumType::Null };
    let p = send_parts(config(TransmissionMode::Acknowledged), metadata(true, size, closure, ck, vec![]), &ch);
    let mut t = SendTransaction::verif_from_parts(p);
    let out2 = send_send(&mut t, &ch);
    match &out2 {
        Some((dest, PDU { header, payload })) => {
            assert!(*dest == VariableID::from(DST_ID));
            check_header(&header, &payload, PDUType::FileDirective);
            match &payload {
                PDUPayload::Directive(Operations::Metadata(m)) => {
                    assert!(m.file_size == size && m.closure_requested == closure && m.checksum_type == ck);
                    assert!(m.source_filename.as_str() == "s" && m.destination_filename.as_str() == "d", "true names");
                    assert!(m.options.is_empty());
                }
                _ => assert!(false, "metadata expected"),
            }
            forget(payload);
        }
        None => assert!(false, "metadata PDU expected"),
    }
    forget(out2);
    assert!(t.verif_send_state() == VSendState::SendData);
    kani::cover!(true, "end");
    forget(t);
    forget(ch);
});
