//! Kani harnesses over cfdp-daemon built with `--cfg cfdp_verif` (engine E2).
//! Harness names: c<NN>_q_* = quick tier, c<NN>_t_* = thorough tier only.
//! A `//# key=value; ...` comment directly above a harness is read by /verif/check and copied into evidence.
#![allow(dead_code, unused_imports, unused_macros, static_mut_refs, clippy::all)]

/// transaction-step harness: all stubs of the daemon environment (S1, S2, S3, S5)
#[cfg(kani)]
macro_rules! th {
    ($(#[$m:meta])* $name:ident, $uw:expr, $body:block) => {
        $(#[$m])*
        #[kani::proof]
        #[kani::unwind($uw)]
        #[kani::stub(tokio::sync::mpsc::Permit::send, crate::env::permit_send_stub)]
        #[kani::stub(std::hash::RandomState::new, crate::env::fixed_keys)]
        #[kani::stub(std::fmt::format, crate::env::fmt_stub)]
        #[kani::stub(std::fs::File::metadata, crate::env::file_metadata_stub)]
        #[kani::stub(std::fs::Metadata::len, crate::env::metadata_len_stub)]
        #[kani::stub(std::io::copy, crate::env::io_copy_stub)]
        #[kani::stub(std::fs::OpenOptions::truncate, crate::env::truncate_stub)]
        fn $name() $body
    };
}

#[cfg(kani)]
mod stubs {
    include!("../../stubs.rs");
}
#[cfg(kani)]
mod env;

#[cfg(kani)]
mod c01;
#[cfg(kani)]
mod c03;
#[cfg(kani)]
mod c04;
#[cfg(kani)]
mod c07;
#[cfg(kani)]
mod c08;
#[cfg(kani)]
mod c09;
#[cfg(kani)]
mod c10;
#[cfg(kani)]
mod c13;
#[cfg(kani)]
mod c17;
#[cfg(kani)]
mod c18;
#[cfg(kani)]
mod c19;
#[cfg(kani)]
mod c20;
// mod x00;  // experiment on rule 7 (see the file header); not compiled
