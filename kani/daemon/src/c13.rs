//! C13(b) — within a transaction the filestore requests run only after a successful delivery, once, in the order
//! given; after the first failure the rest are reported not-performed; the same responses reach the receiving user,
//! the Finished PDU and the sending user. (The request dispatch itself, C13(a), is in the core crate.)
use crate::env::*;
use cfdp_core::{daemon::NakProcedure, filestore::ChecksumType, pdu::*, transaction::TransactionState};
use cfdp_daemon::{
    transaction::{RecvTransaction, SendTransaction},
    verif::{self, VRecvState, VSendState},
};
use std::{mem::forget, time::Duration};

const NOW: u64 = 1000;
const A: TransmissionMode = TransmissionMode::Acknowledged;

/// the k-th request has a first name of k characters (the scripted `process_request` identifies it that way)
fn requests(n: usize) -> Vec<FileStoreRequest> {
    let names = ["", "a", "aa"];
    let mut v = Vec::new();
    let mut i = 0;
    while i < n {
        v.push(FileStoreRequest { action_code: FileStoreAction::CreateFile, first_filename: names[i].into(), second_filename: "".into() });
        i += 1;
    }
    v
}
fn status_byte(ok: Option<bool>) -> u8 {
    match ok {
        Some(true) => FileStoreStatus::CreateFile(CreateFileStatus::Successful).as_u8(),
        Some(false) => FileStoreStatus::CreateFile(CreateFileStatus::NotAllowed).as_u8(),
        None => FileStoreStatus::CreateFile(CreateFileStatus::NotPerformed).as_u8(),
    }
}

fn requests_step(n: usize) {
    let ch = chans();
    verif::set_now(Duration::from_secs(NOW));
    let ok: [bool; MAXREQ] = kani::any();
    unsafe { REQ_OK = ok };
    let mut p = recv_parts(config(A), NakProcedure::Deferred(Duration::ZERO), &ch);
    // a filestore-request-only transaction (no file): finalisation is reached by the EOF
    p.metadata = Some(metadata(false, 0, false, ChecksumType::Modular, requests(n)));
    p.timer.inactivity = counter(10, 2, NOW - 1, 0, false, false);
    let mut t = RecvTransaction::verif_from_parts(p);
    let eof = EndOfFile { condition: Condition::NoError, checksum: 0, file_size: 0, fault_location: None };
    t.process_pdu(directive(A, Direction::ToReceiver, Operations::EoF(eof))).unwrap();
    // expected: run in order until the first failure
    let mut first_fail = n;
    let mut i = 0;
    while i < n {
        if !ok[i] && first_fail == n {
            first_fail = i;
        }
        i += 1;
    }
    let executed = if first_fail == n { n } else { first_fail + 1 };
    assert!(unsafe { REQ_CALLS } == executed, "each request runs at most once and none after the first failure");
    let mut i = 0;
    while i < executed {
        assert!(unsafe { REQ_ORDER[i] } == i as u8, "in the order given");
        i += 1;
    }
    // the same responses reach the user, the record and the Finished PDU
    let (_codes, cnt) = verif::ind_last_kind(verif::K_FINISHED).unwrap();
    assert!(cnt == n as u64, "one response per request in the indication");
    let resp = t.verif_filestore_response();
    assert!(resp.len() == n);
    let fin = match t.verif_finished() {
        Some((f, true)) => f,
        _ => {
            assert!(false, "Finished armed");
            unreachable!()
        }
    };
    assert!(fin.filestore_response.len() == n, "one response per request in the Finished PDU");
    let mut i = 0;
    while i < n {
        let want = status_byte(if i < first_fail { Some(true) } else if i == first_fail { Some(false) } else { None });
        assert!(resp[i].action_and_status.as_u8() == want, "truthful status (not-performed after the first failure)");
        assert!(fin.filestore_response[i].action_and_status.as_u8() == want, "Finished PDU carries the same status");
        assert!(unsafe { verif::IND_FIN_RESP[i] } == want, "the user sees the same status");
        assert!(resp[i].first_filename.as_str().len() == i, "response echoes the request's names");
        i += 1;
    }
    kani::cover!(first_fail == 0 && n > 1, "first fails");
    kani::cover!(first_fail == n, "all succeed");
    forget(t);
    forget(ch);
}
//# funcs=RecvTransaction::process_pdu(EoF),check_finished,finalize_receive,prepare_finished,FileStoreResponse::not_performed; bound=request-only transaction with 2 requests, outcomes symbolic (scripted FileStore::process_request); stubs=S1,S2,S3
th!(c13_q_requests_2, 10, { requests_step(2) });
//# funcs=RecvTransaction::process_pdu(EoF),finalize_receive; bound=3 requests; stubs=S1,S2,S3
th!(c13_t_requests_3, 10, { requests_step(3) });

//# funcs=RecvTransaction::process_pdu(EoF),finalize_receive,verify_checksum,handle_fault,finalize_file; bound=file transfer (4 bytes, complete, content and EOF checksum symbolic) with 1 request: it runs exactly when the checksum matches; stubs=S1,S2,S3,S5
fn only_after_delivery(reject: bool) {
    let ch = chans();
    link_libc();
    verif::set_now(Duration::from_secs(NOW));
    let mut p = recv_parts(config(A), NakProcedure::Deferred(Duration::ZERO), &ch);
    p.metadata = Some(metadata(true, 4, false, ChecksumType::Modular, requests(1)));
    let content: [u8; CAP] = kani::any();
    set_file(TMP, &content[..4]);
    unsafe { TEMPS = 1 };
    p.file_handle = Some(handle(TMP));
    p.saved_segments.merge((0, 4));
    p.received_file_size = 4;
    p.nak_received_file_size = 4;
    p.timer.inactivity = counter(10, 2, NOW - 1, 0, false, false);
    unsafe { OPEN_DST_FAILS = reject };
    let cks: u32 = kani::any();
    let good = cks == ref_checksum(TMP, 4);
    if reject {
        // the checksum-failure path is the subject of the other instance
        kani::assume(good);
    }
    let mut t = RecvTransaction::verif_from_parts(p);
    let eof = EndOfFile { condition: Condition::NoError, checksum: cks, file_size: 4, fault_location: None };
    t.process_pdu(directive(A, Direction::ToReceiver, Operations::EoF(eof))).unwrap();
    if good && !reject {
        assert!(unsafe { REQ_CALLS } == 1, "delivered: the request runs");
        assert!(t.verif_filestore_response().len() == 1);
    } else {
        assert!(unsafe { REQ_CALLS } == 0, "not delivered: no request runs");
        assert!(t.verif_condition() == if good { Condition::FileStoreRejection } else { Condition::FileChecksumFailure });
    }
    kani::cover!(good, "checksum matches");
    kani::cover!(reject || !good, "checksum failure / rejected");
    forget(t);
    forget(ch);
}
th!(c13_q_requests_only_after_delivery, 14, { only_after_delivery(false) });
//# funcs=RecvTransaction::process_pdu(EoF),finalize_receive,finalize_file,handle_fault; bound=as above, checksum matches but the filestore refuses the destination: the request is not executed, FileStoreRejection recorded (> 10 min); stubs=S1,S2,S3,S5
th!(c13_x_requests_not_after_rejection, 14, { only_after_delivery(true) });

//# funcs=SendTransaction::process_pdu(Finished); bound=Finished with 0..=2 responses, any codes; the sending user's indication carries them; stubs=S1,S2,S3
th!(#[kani::stub(<std::hash::DefaultHasher as std::hash::Hasher>::finish, crate::c07::hasher_finish_stub)] c13_x_sender_reports_responses, 5, {
    let ch = chans();
    verif::set_now(Duration::from_secs(NOW));
    let mut p = send_parts(config(A), metadata(false, 0, false, ChecksumType::Modular, requests(2)), &ch);
    p.send_state = VSendState::SendEof;
    p.checksum = Some(0);
    p.eof = Some((EndOfFile { condition: Condition::NoError, checksum: 0, file_size: 0, fault_location: None }, false));
    let mut t = SendTransaction::verif_from_parts(p);
    let n: usize = kani::any();
    kani::assume(n <= 2);
    let s0 = status_byte(if kani::any() { Some(true) } else { Some(false) });
    let mut resp = Vec::new();
    let mut i = 0;
    while i < n {
        resp.push(FileStoreResponse {
            action_and_status: FileStoreStatus::get_status(&FileStoreAction::CreateFile, (if i == 0 { s0 } else { status_byte(None) }) & 0xF).unwrap(),
            first_filename: "".into(),
            second_filename: "".into(),
            filestore_message: vec![],
        });
        i += 1;
    }
    let fin = Finished { condition: Condition::NoError, delivery_code: DeliveryCode::Complete, file_status: FileStatusCode::Unreported, filestore_response: resp, fault_location: None };
    t.process_pdu(directive(A, Direction::ToSender, Operations::Finished(fin))).unwrap();
    let (codes, cnt) = verif::ind_last_kind(verif::K_FINISHED).unwrap();
    assert!(cnt == n as u64, "the sending user sees every response");
    if n > 0 {
        assert!(unsafe { verif::IND_FIN_RESP[0] } == s0, "with its status");
    }
    assert!(codes >> 8 == Condition::NoError as u64 && (codes >> 4) & 0xF == DeliveryCode::Complete as u64);
    assert!(t.verif_send_state() == VSendState::Finished && t.verif_ack().is_some(), "ACK(Finished) is due");
    kani::cover!(n == 2, "two responses");
    forget(t);
    forget(ch);
});
