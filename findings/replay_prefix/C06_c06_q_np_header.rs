// counterexample for property C06, harness c06::c06_q_np_header (kani concrete playback)
// replay: cd /verif/kani/core && cargo kani playback -Z concrete-playback (test injected by ./check --replay)
/// Test generated for harness `c06::c06_q_np_header` 
///
/// Check for `cover`: "accepted"
///
/// # Warning
///
/// Concrete playback tests combined with stubs or contracts is highly
/// experimental, and subject to change.
///
/// The original harness has stubs which are not applied to this test.
/// This may cause a mismatch of non-deterministic values if the stub
/// creates any non-deterministic value.
/// The execution path may also differ, which can be used to refine the stub
/// logic.

#[test]
fn kani_concrete_playback_c06_q_np_header_6614971003099054090() {
    let concrete_vals: Vec<Vec<u8>> = vec![
        // 23
        vec![23],
        // 255
        vec![255],
        // 255
        vec![255],
        // 145
        vec![145],
        // 255
        vec![255],
        // 255
        vec![255],
        // 255
        vec![255],
        // 255
        vec![255],
        // 255
        vec![255],
        // 255
        vec![255],
        // 255
        vec![255],
        // 255
        vec![255],
        // 10ul
        vec![10, 0, 0, 0, 0, 0, 0, 0],
    ];
    kani::concrete_playback_run(concrete_vals, c06_q_np_header);
}
