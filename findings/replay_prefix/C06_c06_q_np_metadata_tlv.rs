// counterexample for property C06, harness c06::c06_q_np_metadata_tlv (kani concrete playback)
// replay: cd /verif/kani/core && cargo kani playback -Z concrete-playback (test injected by ./check --replay)
/// Test generated for harness `c06::c06_q_np_metadata_tlv` 
///
/// Check for `cover`: "accepted"
///
/// # Warning
///
/// Concrete playback tests combined with stubs or contracts is highly
/// experimental, and subject to change.
///
/// The original harness has stubs which are not applied to this test.
/// This may cause a mismatch of non-deterministic values if the stub
/// creates any non-deterministic value.
/// The execution path may also differ, which can be used to refine the stub
/// logic.

#[test]
fn kani_concrete_playback_c06_q_np_metadata_tlv_9613954391550584649() {
    let concrete_vals: Vec<Vec<u8>> = vec![
        // 2
        vec![2],
        // 2
        vec![2],
        // 0
        vec![0],
        // 0
        vec![0],
        // 0
        vec![0],
        // 0
        vec![0],
        // 0
        vec![0],
        // 0
        vec![0],
        // 0
        vec![0],
        // 0
        vec![0],
        // 4ul
        vec![4, 0, 0, 0, 0, 0, 0, 0],
    ];
    kani::concrete_playback_run(concrete_vals, c06_q_np_metadata_tlv);
}
