// counterexample for property C06, harness c06::c06_q_np_eof (kani concrete playback)
// replay: cd /verif/kani/core && cargo kani playback -Z concrete-playback (test injected by ./check --replay)
/// Test generated for harness `c06::c06_q_np_eof` 
///
/// Check for `cover`: "accepted"
///
/// # Warning
///
/// Concrete playback tests combined with stubs or contracts is highly
/// experimental, and subject to change.
///
/// The original harness has stubs which are not applied to this test.
/// This may cause a mismatch of non-deterministic values if the stub
/// creates any non-deterministic value.
/// The execution path may also differ, which can be used to refine the stub
/// logic.

#[test]
fn kani_concrete_playback_c06_q_np_eof_749149827481699986() {
    let concrete_vals: Vec<Vec<u8>> = vec![
        // 15
        vec![15],
        // 255
        vec![255],
        // 255
        vec![255],
        // 255
        vec![255],
        // 255
        vec![255],
        // 255
        vec![255],
        // 255
        vec![255],
        // 255
        vec![255],
        // 255
        vec![255],
        // 255
        vec![255],
        // 255
        vec![255],
        // 255
        vec![255],
        // 255
        vec![255],
        // 5
        vec![5],
        // 255
        vec![255],
        // 255
        vec![255],
        // 14ul
        vec![14, 0, 0, 0, 0, 0, 0, 0],
        // 1
        vec![1],
    ];
    kani::concrete_playback_run(concrete_vals, c06_q_np_eof);
}
